"""C18: configuration expansion -- json_extends, counts / ranges / names / access, JsonRandom, legacy
session keys, class lookup."""
import copy
import itertools
import random

import pams
import pams.utils.json_random as JR
from pams.runners import SequentialRunner
from pams.session import Session
from pams.utils import JsonRandom, find_class, json_extends

from sx import sand, sor, snot, is_sym
from sx.driver import Harness
from . import rn
from .common import SymRandom
from .mathstub import MathStub

KEYS = ["a", "b", "x"]          # "x" plays the non-inheritable key


class JsonExtends(Harness):
    name = "JsonExtends"
    title = "real json_extends on every inheritance graph over up to 4 entries"
    what_symbolic = ("structure only: each entry's parent (none / any entry incl. itself / a missing name) and the "
                     "presence of each of 3 keys per entry are solver choice variables (the solver enumerates the "
                     "graphs: chains, diamonds through repeated parents, cycles, missing parents)")
    nontrivial_event = "the resolved entry inherits at least one key from an ancestor"
    bounds = {"quick": "3 entries x 3 keys, one of them excluded from inheritance",
              "thorough": "adds 4 entries x 2 keys (one excluded)"}
    reach = ("nontrivial", "cycle", "missing-parent", "excluded-key-skipped", "shadowed")
    agreement_runs = 10

    def cases(self, tier):
        if tier == "quick":
            return [{"n": 3, "target": t, "keys": KEYS} for t in range(3)]
        # 4 entries: 2 keys (one of them non-inheritable) keep the graph space at 6^4 x 4^4 per target
        return [{"n": 3, "target": t, "keys": KEYS} for t in range(3)] + \
               [{"n": 4, "target": t, "keys": ["a", "x"]} for t in range(4)]

    def run(self, g, case):
        n = case["n"]
        whole = {}
        for i in range(n):
            d = {}
            par = g.choice(f"par{i}", n + 2)           # 0..n-1 entries, n = none, n+1 = missing name
            if par < n:
                d["extends"] = f"E{par}"
            elif par == n + 1:
                d["extends"] = "MISSING"
            for k in case.get("keys", KEYS):
                if g.boolean(f"has{i}{k}"):
                    d[k] = 10 * i + KEYS.index(k)
            whole[f"E{i}"] = d
        before = copy.deepcopy(whole)
        name = f"E{case['target']}"
        # reference resolver: own keys, then nearest ancestor defining the key, skipping excluded keys;
        # missing parent or cycle => error
        want, err = dict((k, v) for k, v in whole[name].items() if k != "extends"), None
        seen, cur = [name], whole[name]
        while "extends" in cur:
            p = cur["extends"]
            if p not in whole:
                err = "missing"
                break
            if p in seen:
                err = "cycle"
                break
            seen.append(p)
            cur = whole[p]
            for k, v in cur.items():
                if k == "extends":
                    continue
                if k == "x":
                    g.note("excluded-key-skipped")
                    continue
                if k in want:
                    g.note("shadowed")
                else:
                    want[k] = v
                    g.note("nontrivial")
        try:
            got = json_extends(whole_json=whole, parent_name=name, target_json=whole[name], excludes_fields=["x"])
            raised = None
        except ValueError as e:
            got, raised = None, e
        if err:
            g.note(err if err == "cycle" else "missing-parent")
            g.require(raised is not None, "C18.extends-error-not-reported", f"{err} not reported as an error")
        else:
            g.require(raised is None, "C18.extends-spurious-error", str(raised))
            g.require(got == want, "C18.extends-wrong-result", f"got {got}, want {want}")
            g.require("extends" not in got, "C18.extends-key-left")
        g.require(whole == before, "C18.extends-modified-input", "the caller's settings were modified")


class Expansion(Harness):
    name = "Expansion"
    title = "count / inclusive-range expansion of market and agent groups in the real SequentialRunner._setup"
    what_symbolic = "nothing numeric (configuration values are python ints that pams converts with int()): finite enumeration"
    nontrivial_event = "a group expanded to more than one entity"
    bounds = {"quick": "numMarkets/numAgents 1..4; from..to ranges of length 1..4 at offsets 0 and 3; with and without prefix; two market groups; agents listing one or both",
              "thorough": "same"}
    reach = ("nontrivial", "range-length-2", "range-length-1", "two-groups")
    agreement_runs = 0

    def cases(self, tier):
        out = []
        specs = [("num", n, 0) for n in (0, 1, 2, 3, 4)] + [("range", ln, off) for ln in (1, 2, 3, 4) for off in (0, 3)]
        for kind, n, off in specs:
            for prefix in (False, True):
                out.append({"what": "markets", "kind": kind, "n": n, "off": off, "prefix": prefix})
                out.append({"what": "agents", "kind": kind, "n": n, "off": off, "prefix": prefix})
        for lists in (["G1"], ["G2"], ["G1", "G2"]):
            out.append({"what": "access", "lists": lists})
        return out

    @staticmethod
    def _group(kind, n, off, prefix, base):
        d = dict(base)
        if kind == "num":
            d["numMarkets" if "tickSize" in base else "numAgents"] = n
        else:
            d["from"], d["to"] = off, off + n - 1
        if prefix:
            d["prefix"] = "P-"
        return d

    def run(self, g, case):
        mbase = {"class": "Market", "tickSize": 1, "marketPrice": 300}
        abase = {"class": "ScriptedAgent", "markets": ["G1"], "assetVolume": 50, "cashAmount": 10000}
        st = {"simulation": {"markets": ["G1", "G2", "G3"], "agents": ["A", "B"], "sessions": [rn.session(0, 1)]},
              "G1": dict(mbase), "G2": dict(mbase, numMarkets=2), "G3": dict(mbase), "A": dict(abase),
              "B": dict(abase)}      # G3 and B declare neither a count nor a range: exactly one entity each
        if case["what"] == "markets":
            st["G1"] = self._group(case["kind"], case["n"], case["off"], case["prefix"], mbase)
            n_expected = case["n"]
            if n_expected == 0:        # an empty group listed first: nobody trades there
                st["A"]["markets"] = ["G2"]
                st["B"]["markets"] = ["G2"]
        elif case["what"] == "agents":
            st["A"] = self._group(case["kind"], case["n"], case["off"], case["prefix"], abase)
            n_expected = case["n"]
        else:
            st["G1"]["numMarkets"] = 2
            st["A"]["markets"] = case["lists"]
            n_expected = 1
            g.note("two-groups")
        if case.get("kind") == "range":
            g.note(f"range-length-{case['n']}" if case["n"] <= 2 else "range-longer")
        if n_expected > 1:
            g.note("nontrivial")
        before = copy.deepcopy(st)
        try:
            ctx = rn.make_run(g, st, {"acts": ["none"]})
        except Exception as e:      # noqa: BLE001
            g.require(False, "C18.setup-raised", f"_setup() raised {type(e).__name__}: {e}")
            return
        sim = ctx.sim
        g.require(st == before, "C18.settings-modified")
        g.require(len(sim.markets_group_name2market["G3"]) == 1 and len(sim.agents_group_name2agent["B"]) == 1,
                  "C18.group-size", "a group declaring neither a count nor a range must create exactly one entity")
        g.require(len(sim.markets_group_name2market["G2"]) == 2, "C18.group-size")
        grp = sim.markets_group_name2market.get("G1", []) if case["what"] != "agents" else \
            sim.agents_group_name2agent.get("A", [])
        if case["what"] == "markets":
            g.require(len(grp) == n_expected, "C18.group-size", f"{len(grp)} markets created, {n_expected} declared")
            ids = [m.market_id for m in sim.markets]
            g.require(ids == list(range(len(ids))), "C18.ids-not-consecutive")
            names = [m.name for m in sim.markets]
            g.require(len(set(names)) == len(names), "C18.duplicate-names")
            g.require(all(sim.name2market[m.name] is m and sim.id2market[m.market_id] is m for m in sim.markets),
                      "C18.registries")
        elif case["what"] == "agents":
            g.require(len(grp) == n_expected, "C18.group-size", f"{len(grp)} agents created, {n_expected} declared")
            ids = [a.agent_id for a in sim.agents]
            g.require(ids == list(range(len(ids))), "C18.ids-not-consecutive")
            names = [a.name for a in sim.agents]
            g.require(len(set(names)) == len(names), "C18.duplicate-names")
        else:
            want = sorted(m.market_id for gname in case["lists"] for m in sim.markets_group_name2market[gname])
            for a in sim.agents_group_name2agent["A"]:
                got = sorted(m.market_id for m in sim.markets if a.is_market_accessible(m.market_id))
                g.require(got == want, "C18.accessible-markets", f"agent can access {got}, listed groups give {want}")


class RandomValues(Harness):
    cvc5_recheck = True      # thorough tier: obligations re-discharged with cvc5
    name = "RandomValues"
    title = "real JsonRandom.random with the generator's draws as solver variables"
    what_symbolic = "the uniform draw u in [0,1), the gaussian draw g (any real); bounds a<b, lambda>0 from concrete sets"
    nontrivial_event = "a distribution was sampled"
    bounds = {"quick": "uniform [a,b] list and dict forms, const, normal, expon; a,b in {(0,1),(10,20),(-5,5),(0.1,0.3)}, lambda in {0.5,2}; malformed specifications",
              "thorough": "same"}
    reach = ("nontrivial", "malformed-rejected")
    stubs = ("pams.utils.json_random.math -> contract stub (log: sign and monotonicity)",
             "prng.random / prng.gauss -> solver reals")
    agreement_runs = 8

    def cases(self, tier):
        out = []
        for a, b in ((0, 1), (10, 20), (-5, 5), (0.1, 0.3), (3, 3)):
            out.append({"spec": [a, b]})
            out.append({"spec": {"uniform": [a, b]}})
        out += [{"spec": {"const": [7.5]}}, {"spec": {"normal": [1.5, 2.0]}}, {"spec": {"expon": [0.5]}},
                {"spec": {"expon": [2]}}, {"spec": 4}, {"spec": 2.5}]
        for bad in ([1], [1, 2, 3], {"const": 1}, {"const": [1, 2]}, {"uniform": [1]}, {"uniform": 3},
                    {"normal": [1]}, {"normal": 2}, {"expon": [1, 2]}, {"expon": 1}, {"foo": [1]},
                    {"const": [1], "uniform": [1, 2]}, {}):
            out.append({"spec": bad, "bad": True})
        return out

    def run(self, g, case):
        prng = SymRandom(g, "jr")
        stub = MathStub(g)
        old = JR.math
        JR.math = stub
        try:
            jr = JsonRandom(prng=prng)
            spec = case["spec"]
            if case.get("bad"):
                try:
                    jr.random(json_value=spec)
                    g.require(False, "C18.malformed-spec-accepted", f"{spec}")
                except ValueError:
                    g.note("malformed-rejected")
                return
            try:
                x = jr.random(json_value=copy.deepcopy(spec))
            except ValueError:
                # observation (not part of the property): expon raises "math domain error" for the draw u = 0
                g.require(isinstance(spec, dict) and "expon" in spec and bool(prng.uniforms[0] == 0),
                          "C18.valid-spec-rejected")
                g.note("expon-raises-at-u=0")
                return
            g.observe(x)
            g.note("nontrivial")
            if isinstance(spec, list) or (isinstance(spec, dict) and "uniform" in spec):
                a, b = spec if isinstance(spec, list) else spec["uniform"]
                if a < b:
                    g.require(sand(x >= a, x < b), "C18.uniform-outside-support", f"value outside [{a},{b})")
                else:
                    g.require(x == a, "C18.uniform-outside-support")
            elif isinstance(spec, dict) and "const" in spec:
                g.require(x == spec["const"][0], "C18.const")
            elif isinstance(spec, dict) and "normal" in spec:
                g.require(x == spec["normal"][0] + spec["normal"][1] * prng.last_g, "C18.normal-passthrough")
            elif isinstance(spec, dict) and "expon" in spec:
                g.require(x > 0, "C18.expon-outside-support", "exponential sample not positive")
                (kind, arg, val), = stub.calls
                g.require(sand(arg == prng.uniforms[0], x == spec["expon"][0] * -val), "C18.expon-formula")
            else:
                g.require(x == spec, "C18.constant-number")
        finally:
            JR.math = old


class UniformIEEE(Harness):
    """the same real JsonRandom._next_uniform, executed on IEEE binary64 proxies (round-to-nearest-even)."""
    name = "UniformIEEE"
    title = "real JsonRandom uniform sampling in IEEE-754 binary64: is the documented support [a, b) respected by doubles?"
    what_symbolic = "the generator's draw u: any double in [0, 1); bounds (a, b) from a concrete set"
    nontrivial_event = "every path"
    pairs = [(10, 20), (0, 1), (-5, 5), (0.1, 0.3), (5000, 15000), (1, 100), (0.0, 0.1), (2, 5), (-1.5, 1e6)]
    bounds = {"quick": "(a,b) in {(10,20),(0,1),(-5,5),(0.1,0.3),(5000,15000),(1,100),(0,0.1),(2,5),(-1.5,1e6)}; u any double in [0,1)",
              "thorough": "same"}
    reach = ("nontrivial",)
    stubs = ("prng.random -> any finite double in [0,1) (z3 FloatingPoint, RNE)",)
    assumptions = ("CPython float arithmetic is IEEE-754 binary64 with round-to-nearest-even",)
    agreement_runs = 6

    def cases(self, tier):
        return [{"a": a, "b": b} for a, b in self.pairs]

    def run(self, g, case):
        class P(random.Random):
            def random(self_inner):
                return g.fp("u", 0.0, 1.0, hi_strict=True)
        a, b = float(case["a"]), float(case["b"])
        x = JsonRandom(prng=P())._next_uniform(min_value=a, max_value=b)
        g.note("nontrivial")
        g.observe(x)
        g.require(x >= a, "C18.uniform-below-support(ieee)", f"a double below a={a} was produced")
        g.require(x <= b, "C18.uniform-above-support(ieee)", f"a double above b={b} was produced")
        g.require(x < b, "C18.uniform-upper-end-reached-by-rounding",
                  f"_next_uniform({a}, {b}) returns exactly b for a draw close to 1 although a <= x < b is documented")


class LegacyKeys(Harness):
    name = "LegacyKeys"
    title = "real Session.setup: deprecated spellings set the same parameter as their replacement"
    what_symbolic = "presence of each of the four keys (solver booleans); values distinct concrete numbers"
    nontrivial_event = "a legacy key was given"
    bounds = {"quick": "all 16 presence combinations of maxHighFrequencyOrders / maxHifreqOrders / highFrequencySubmitRate / hifreqSubmitRate",
              "thorough": "same"}
    reach = ("nontrivial", "both-spellings-rejected")
    agreement_runs = 4

    def cases(self, tier):
        return [{"zeros": False}, {"zeros": True}]

    def run(self, g, case):
        st = {"sessionName": 0, "iterationSteps": 3, "withOrderPlacement": True, "withOrderExecution": True,
              "withPrint": False}
        vals = {"maxHighFrequencyOrders": 5, "maxHifreqOrders": 6, "highFrequencySubmitRate": 0.25,
                "hifreqSubmitRate": 0.75}
        if case.get("zeros"):      # switching high-frequency agents off is a legal setting
            vals = {"maxHighFrequencyOrders": 0, "maxHifreqOrders": 0, "highFrequencySubmitRate": 0.0,
                    "hifreqSubmitRate": 0.0}
        has = {k: g.boolean(f"has_{k}") for k in vals}
        for k, v in vals.items():
            if has[k]:
                st[k] = v

        def fresh():
            return Session(session_id=0, prng=random.Random(0), session_start_time=0, simulator=None, name="s")
        s = fresh()
        clash = (has["maxHighFrequencyOrders"] and has["maxHifreqOrders"]) or \
                (has["highFrequencySubmitRate"] and has["hifreqSubmitRate"])
        try:
            s.setup(dict(st))
            raised = None
        except ValueError as e:
            raised = e
        if clash:
            g.note("both-spellings-rejected")
            g.require(raised is not None, "C18.old-and-new-key-accepted-together")
            return
        g.require(raised is None, "C18.setup-raised", str(raised))
        # reference: what the replacement spelling would have set
        st2 = dict(st)
        if "maxHifreqOrders" in st2:
            st2["maxHighFrequencyOrders"] = st2.pop("maxHifreqOrders")
            g.note("nontrivial")
        if "hifreqSubmitRate" in st2:
            st2["highFrequencySubmitRate"] = st2.pop("hifreqSubmitRate")
            g.note("nontrivial")
        r = fresh()
        r.setup(st2)
        # ... and the replacement spelling sets exactly the configured value
        if "maxHighFrequencyOrders" in st2:
            g.require(r.max_high_frequency_orders == st2["maxHighFrequencyOrders"], "C18.session-key-value-lost",
                      f"maxHighFrequencyOrders={st2['maxHighFrequencyOrders']} gives {r.max_high_frequency_orders}")
        if "highFrequencySubmitRate" in st2:
            g.require(r.high_frequency_submission_rate == st2["highFrequencySubmitRate"], "C18.session-key-value-lost",
                      f"highFrequencySubmitRate={st2['highFrequencySubmitRate']} gives {r.high_frequency_submission_rate}")
        g.require(s.max_high_frequency_orders == r.max_high_frequency_orders, "C18.legacy-key-sets-other-parameter",
                  f"max_high_frequency_orders={s.max_high_frequency_orders}, replacement spelling gives {r.max_high_frequency_orders}")
        g.require(s.high_frequency_submission_rate == r.high_frequency_submission_rate,
                  "C18.legacy-key-sets-other-parameter",
                  f"high_frequency_submission_rate={s.high_frequency_submission_rate}, replacement spelling gives {r.high_frequency_submission_rate}")
        g.require(s.max_normal_orders == r.max_normal_orders and s.iteration_steps == r.iteration_steps,
                  "C18.legacy-key-sets-other-parameter")


class ClassLookup(Harness):
    name = "ClassLookup"
    title = "find_class resolves every public pams class name to exactly that class"
    what_symbolic = "nothing: enumeration of the finite set of public class names"
    nontrivial_event = "a name resolved"
    bounds = {"quick": "all public classes of pams, pams.agents, pams.events, pams.logs, pams.utils; a registered user class; an unknown name; a user class shadowing a built-in name; two registered user classes carrying one name",
              "thorough": "same"}
    reach = ("nontrivial",)
    agreement_runs = 0

    def run(self, g, case):
        import inspect
        import pams.agents
        import pams.events
        import pams.logs
        import pams.utils
        n = 0
        for mod in (pams, pams.agents, pams.events, pams.logs, pams.utils):
            for name, obj in vars(mod).items():
                if inspect.isclass(obj) and not name.startswith("_") and obj.__module__.startswith("pams"):
                    got = find_class(name=name)
                    g.require(got is obj, "C18.class-lookup", f"{name} resolved to {got}")
                    n += 1
                    g.note("nontrivial")
        g.require(n >= 25, "C18.harness:too-few-classes")

        class UserAgent(pams.agents.Agent):
            pass
        g.require(find_class("UserAgent", optional_class_list=[UserAgent]) is UserAgent, "C18.user-class-lookup")
        for bad, extra in (("NoSuchClass", None), ("UserAgent", None)):
            try:
                find_class(bad, optional_class_list=extra)
                g.require(False, "C18.unknown-class-resolved")
            except AttributeError:
                pass
        Market = type("Market", (), {})
        try:
            find_class("Market", optional_class_list=[Market])
            g.require(False, "C18.ambiguous-class-resolved")
        except AttributeError:
            pass
        # a registered class whose name merely ends with another class name does not answer to that name
        NoiseTrader = type("NoiseTrader", (pams.agents.Agent,), {})
        ThinMarket = type("ThinMarket", (pams.Market,), {})
        regs = [NoiseTrader, ThinMarket]
        g.require(find_class("NoiseTrader", optional_class_list=regs) is NoiseTrader, "C18.user-class-lookup")
        g.require(find_class("Market", optional_class_list=regs) is pams.Market, "C18.class-lookup",
                  "Market must resolve to pams.Market although a registered class is called ThinMarket")
        g.require(find_class("Agent", optional_class_list=regs) is pams.agents.Agent, "C18.class-lookup")
        for bad in ("Trader", "oiseTrader", "hinMarket"):
            try:
                got = find_class(bad, optional_class_list=regs)
                g.require(False, "C18.unknown-class-resolved", f"{bad} resolved to {got}")
            except AttributeError:
                pass
        # the same through the runner's registration: two different user classes that carry one name (made by a
        # factory) cannot both be meant by a configuration entry -- the name must not resolve silently to one of them
        from pams.runners import SequentialRunner

        def make(side):
            class SideTrader(pams.agents.Agent):
                is_buyer = side

                def submit_orders(self, markets):
                    return []
            return SideTrader
        buy, sell = make(True), make(False)
        runner = SequentialRunner(settings={"simulation": {"markets": [], "agents": [], "sessions": []}},
                                  prng=random.Random(1))
        runner.class_register(buy)
        try:
            runner.class_register(sell)
        except Exception:        # refusing the second registration is one admissible answer
            g.note("same-name-registration-refused")
            return
        g.require(sum(1 for c in runner.registered_classes if c is buy) == 1 and
                  sum(1 for c in runner.registered_classes if c is sell) == 1, "C18.registered-class-lost",
                  "a registered user class is no longer among the runner's classes")
        try:
            got = find_class("SideTrader", optional_class_list=runner.registered_classes)
            g.require(False, "C18.ambiguous-class-resolved", f"two registered classes named SideTrader; resolved to {got}")
        except AttributeError:
            g.note("same-name-classes-ambiguous")


class C18_JsonExtends(JsonExtends):
    pass


class C18_Expansion(Expansion):
    pass


class C18_RandomValues(RandomValues):
    pass


class C18_UniformIEEE(UniformIEEE):
    pass


class C18_LegacyKeys(LegacyKeys):
    pass


class C18_ClassLookup(ClassLookup):
    pass

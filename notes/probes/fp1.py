import z3, time
F = z3.Float64(); RNE = z3.RNE()
def q_uniform():
    r, a, b = z3.FP('r', F), z3.FP('a', F), z3.FP('b', F)
    s = z3.Solver(); s.set("timeout", 120000)
    one = z3.FPVal(1.0, F); zero = z3.FPVal(0.0, F)
    s.add(z3.fpGEQ(r, zero), z3.fpLT(r, one))
    s.add(z3.fpLT(a, b), z3.fpGEQ(a, z3.FPVal(-1e6, F)), z3.fpLEQ(b, z3.FPVal(1e6, F)))
    x = z3.fpAdd(RNE, z3.fpMul(RNE, r, z3.fpSub(RNE, b, a)), a)
    return s, x, a, b, r
s, x, a, b, r = q_uniform()
s.push(); s.add(z3.fpGEQ(x, b)); t=time.time(); res = s.check(); print("uniform x>=b:", res, round(time.time()-t,1))
if res == z3.sat:
    m = s.model(); print({str(d): m[d] for d in m.decls()})
s.pop(); s.push(); s.add(z3.fpGT(x, b)); t=time.time(); res = s.check(); print("uniform x>b:", res, round(time.time()-t,1))
if res == z3.sat:
    m = s.model(); print({str(d): m[d] for d in m.decls()})
s.pop(); s.push(); s.add(z3.fpLT(x, a)); t=time.time(); res = s.check(); print("uniform x<a:", res, round(time.time()-t,1))

import sys, random, warnings, time
sys.path.insert(0, "/tmp/probe")
import numpy as np, z3
from sx import Engine, SReal, SInt, SNum
warnings.simplefilter("ignore")
import pams.fundamentals as F
from pams.fundamentals import Fundamentals

EXP = z3.Function("EXP", z3.RealSort(), z3.RealSort())
def _exp(self):
    e = EXP(self.e if self.e.sort()==z3.RealSort() else z3.ToReal(self.e))
    self.g.solver.add(e > 0)
    return SReal(self.g, e)
SNum.exp = _exp

class NPShim:
    """numpy facade: identical API, object dtype so proxies flow through real numpy broadcasting/dot/cumsum"""
    def __getattr__(self, k): return getattr(np, k)
    def eye(self, n): return np.eye(n).astype(object)
    def asarray(self, x): return np.asarray(x, dtype=object)
shim = NPShim()

def harness(g):
    f = Fundamentals(prng=random.Random(0))
    f._generate_chunk_size = 2
    v0 = g.fresh_real("v0"); v1 = g.fresh_real("v1"); c = g.fresh_real("c")
    d0 = g.fresh_real("d0"); d1 = g.fresh_real("d1"); d2 = g.fresh_real("d2")
    g.assume(v0 > 0); g.assume(v1 > 0); g.assume(c > -1); g.assume(c < 1)
    f.add_market(0, 100.0, d0, v0); f.add_market(1, 200.0, d1, v1); f.add_market(2, 50.0, d2, 0.0)
    f.correlation[(0, 1)] = c
    Z = {}
    class NPRNG:
        def standard_normal(self, size):
            a = np.empty(size, dtype=object)
            for i in range(size[0]):
                for j in range(size[1]):
                    a[i, j] = g.fresh_real(f"z{i}_{j}_{len(Z)}")
            Z[len(Z)] = a
            return a
    f._np_prng = NPRNG()
    def chol(cov, lower=True):
        n = cov.shape[0]; L = np.zeros((n, n), dtype=object)
        for i in range(n):
            for j in range(i + 1):
                L[i, j] = g.fresh_real(f"L{i}{j}")
            g.assume(L[i, i] > 0)
        LLt = np.dot(L, L.T)
        for i in range(n):
            for j in range(n):
                g.assume(LLt[i, j] == cov[i, j])
        return L
    F.cholesky = chol; F.np = shim
    try:
        lr = f._generate_log_return([0, 1, 2], 2)
    finally:
        F.np = np
    z = Z[0]
    # Cov of (lr0, lr1) per step under Z~N(0,I): coefficients
    # lr[i][t] = drift_i + sum_k L[i][k] z[k][t]  -> check by coefficient extraction: substitute basis vectors
    return lr, z

g = Engine(); t0 = time.time()
out = {}
def h(g):
    lr, z = harness(g)
    out["lr"] = lr; out["z"] = z
    # claim: lr[2][t] == d2 ; lr[0][t]-d0 and lr[1][t]-d1 linear in z with L; variance identity
    s = g.solver
    d0, d1, d2, v0, v1, c = (g.vars[k] for k in ("d0", "d1", "d2", "v0", "v1", "c"))
    for t in range(2):
        assert g.branch(lr[2][t].e == d2)
    # substitute z := 0 -> drift
    subs0 = [(z[i, j].e, z3.RealVal(0)) for i in range(2) for j in range(2)]
    a00 = z3.simplify(z3.substitute(lr[0][0].e, *subs0)); print("lr00 at z=0:", a00)
    # coefficient wrt z[0,0], z[1,0]
    def coef(expr, i, j):
        sub = [(z[a, b].e, z3.RealVal(1 if (a, b) == (i, j) else 0)) for a in range(2) for b in range(2)]
        return z3.simplify(z3.substitute(expr, *sub) - z3.substitute(expr, *subs0))
    A = [[coef(lr[i][0].e, k, 0) for k in range(2)] for i in range(2)]
    print("A=", A)
    cov00 = A[0][0]*A[0][0] + A[0][1]*A[0][1]; cov01 = A[0][0]*A[1][0] + A[0][1]*A[1][1]; cov11 = A[1][0]*A[1][0] + A[1][1]*A[1][1]
    s.push(); s.add(z3.Or(cov00 != v0*v0, cov01 != v0*c*v1, cov11 != v1*v1)); r = s.check(); print("neg claim:", r); s.pop()
res = g.explore(h)
import traceback
for e, m in res: traceback.print_exception(e)
print(f"paths={g.paths} queries={g.queries} solver_s={g.solver_time:.2f} wall={time.time()-t0:.2f}")

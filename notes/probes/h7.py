import sys, random, warnings, time, math
sys.path.insert(0, "/tmp/probe")
import z3
from sx import Engine, SReal, SInt, SNum, SBool
warnings.simplefilter("ignore")
from pams.market import Market
from pams.order import Order, LIMIT_ORDER
from fractions import Fraction
class _Sim: pass
def h_tick(tick, is_buy):
    def h(g):
        m = Market(market_id=0, prng=random.Random(0), simulator=_Sim(), name="m")
        m.setup({"tickSize": 1, "marketPrice": 10}); m.tick_size = SReal(g, z3.RealVal(str(tick)))
        m._update_time(next_fundamental_price=10)
        p = g.fresh_real("p"); g.assume(p > 0)
        o = Order(agent_id=0, market_id=0, is_buy=is_buy, kind=LIMIT_ORDER, volume=1, price=p)
        log = m._add_order(o)
        q = o.price
        t = m.tick_size
        # on grid: exists integer k: q == k*t
        k = g.fresh_int("k")
        s = g.solver
        # claim: q on grid, direction, < 1 tick, unchanged if on grid
        if is_buy:
            assert q <= p; assert p - q < t
        else:
            assert q >= p; assert q - p < t
        kk = z3.Int("kk")
        s.push(); s.add(z3.ForAll([kk], q.e != z3.ToReal(kk) * t.e)); r = s.check(); s.pop()
        assert r == z3.unsat, f"off grid {r}"
    return h
for tick in ["1", "1/2", "1/10", "1/100000", "7/4", "3"]:
    for b in (True, False):
        g = Engine(); t0 = time.time(); res = g.explore(h_tick(tick, b))
        print(tick, b, f"paths={g.paths} q={g.queries} solver_s={g.solver_time:.2f}", "VIOL" if res else "ok", res[0][0] if res else "")

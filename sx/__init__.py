from .core import *  # noqa: F401,F403

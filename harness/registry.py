"""property id -> (harness specs, explanation).  Every check is decided by SX exploring the real code."""

EXPLAIN = ("bounded symbolic execution of the real pams code: the harness runs the repository's own "
           "functions on proxy numbers; every branch and every oracle obligation is decided by z3 over "
           "all values inside the stated ranges; the decision tree of every structural case is explored "
           "to exhaustion; counterexamples are replayed concretely on the real code before being reported")

CHECKS = {
    "C01": {"harnesses": [("harness.matching", "C01_ClearingRound"), ("harness.matching", "C01_Continuous")]},
    "C02": {"harnesses": [("harness.priority", "C02_OrderLaws"), ("harness.priority", "C02_HeapMaintenance"),
                          ("harness.matching", "C02_ClearingRound"), ("harness.matching", "C02_Continuous")]},
    "C04": {"harnesses": [("harness.ophistory", "C04_OpHistory"), ("harness.ophistory", "C04_NegativeOps")]},
    "C05": {"harnesses": [("harness.runs", "C05_RunnerBasics")]},
    "C09": {"harnesses": [("harness.sessions", "C09_SessionRules")]},
    "C10": {"harnesses": [("harness.runs", "C10_RunnerBasics")]},
    "C11": {"harnesses": [("harness.runs", "C11_RunnerBasics")]},
    "C08": {"harnesses": [("harness.ophistory", "C08_OpHistory")]},
    "C03": {"harnesses": [("harness.matching", "C03_ClearingRound"), ("harness.matching", "C03_Continuous")]},
}

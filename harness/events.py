"""C13 (event hooks), C14 (shocks), C15 (price limit rule), C16 (trading halt rule) on the real runner."""
import itertools
import math

from pams.events import EventABC, EventHook, PriceLimitRule
from pams.index_market import IndexMarket
from pams.logs import (ExecutionLog, MarketStepBeginLog, MarketStepEndLog, OrderLog, SessionBeginLog,
                       SessionEndLog)
from pams.market import Market
from pams.order import LIMIT_ORDER, MARKET_ORDER, Cancel, Order

from sx import sand, sor, snot, ite, is_sym
from sx.driver import Harness
from . import rn
from .common import mk_market, new_order, BareSim


# =================================================================================================
# C13
class SpecProbe(EventABC):
    """probe whose hooks are described by rn.RUN.menu['hooks'] (type, before, time list, filter)."""

    def hook_registration(self):
        ctx = rn.RUN
        hooks = []
        for i, sp in enumerate(ctx.menu["hooks"]):
            flt = sp.get("filter")
            kw = {}
            if flt == "class:Market":
                kw["specific_class"] = Market
            elif flt == "class:IndexMarket":
                kw["specific_class"] = IndexMarket
            elif flt and flt.startswith("inst:"):
                kw["specific_instance"] = self.simulator.name2market[flt[5:]]
            elif flt and flt.startswith("both:"):        # class and instance requirement on one hook
                _, cname, iname = flt.split(":")
                kw["specific_class"] = {"Market": Market, "IndexMarket": IndexMarket}[cname]
                kw["specific_instance"] = self.simulator.name2market[iname]
            # hook time lists hold plain ints in pams (they are dictionary keys): realise the solver's choice
            times = None if sp["times"] is None else [int(x) for x in sp["times"]]
            sp["times"] = times
            h = EventHook(event=self, hook_type=sp["type"], is_before=sp["before"], time=times, **kw)
            hooks.append(h)
        ctx.probe_hooks = hooks
        return hooks

    def hooked_before_order(self, simulator, order):
        ctx = rn.RUN
        ctx.g.require(order.placed_at is None and order.order_id is None, "C13.before-order-ran-after-acceptance")
        ctx.emit("hook:order-before", None, order)
        if ctx.menu.get("rewrite") and not ctx.rewritten.get(id(order)) and order.price is not None:
            np_ = ctx.g.int(f"rw{len(ctx.rewritten)}", 1, 1000)
            ctx.rewritten[id(order)] = np_
            order.price = np_

    def hooked_after_order(self, simulator, order_log):
        rn.RUN.emit("hook:order-after", None, order_log)

    def hooked_before_cancel(self, simulator, cancel):
        rn.RUN.g.require(cancel.placed_at is None, "C13.before-cancel-ran-after-acceptance")
        rn.RUN.emit("hook:cancel-before", None, cancel)

    def hooked_after_cancel(self, simulator, cancel_log):
        rn.RUN.emit("hook:cancel-after", None, cancel_log)

    def hooked_after_execution(self, simulator, execution_log):
        rn.RUN.emit("hook:execution-after", None, execution_log)

    def hooked_before_session(self, simulator, session):
        rn.RUN.emit("hook:session-before", None, session)

    def hooked_after_session(self, simulator, session):
        rn.RUN.emit("hook:session-after", None, session)

    def hooked_before_step_for_market(self, simulator, market):
        rn.RUN.emit("hook:market-before", None, (market, market.get_time()))

    def hooked_after_step_for_market(self, simulator, market):
        rn.RUN.emit("hook:market-after", None, (market, market.get_time()))


class InheritingProbe(SpecProbe):
    """user event two levels below EventABC: every handler is inherited from its parent class."""


class IdleEvent(EventABC):
    """user event without hooks (listed in another session than the probe)."""

    def hook_registration(self):
        return []


HOOK_KINDS = [("order", True), ("order", False), ("cancel", True), ("cancel", False), ("execution", False),
              ("session", True), ("session", False), ("market", True), ("market", False)]


class HookDispatch(Harness):
    name = "HookDispatch"
    title = "user event with arbitrary hooks in a real run: invoked exactly once per matching occurrence"
    what_symbolic = ("the entries of each hook's time list (ints in [-1, T+1], repetitions allowed), the price a "
                     "before-order hook writes into the pending order, agents' activation order")
    nontrivial_event = "a hook fired at least once"
    reach = ("nontrivial", "time-list-with-repeated-entry", "hook-not-fired-for-time", "filter-excluded", "fill",
             "cancel")
    bounds = {
        "quick": "one probe event with 1 hook (all 9 type/before-after kinds) x time list in {None, [], [t1], [t1,t2]} "
                 "symbolic, plus 2-hook combinations of the same kind (for market-step hooks every ordered pair of "
                 "filters, and a 3-hook combination); market filters none/class/instance/class-and-instance; 2 sessions "
                 "(2+1 steps), markets M0 + index market, 2 agents (scripted buy/sell/cancel)",
        "thorough": "adds [t1,t2,t3] lists and probe listed in the second session",
    }
    assumptions = (rn.REDUCTION_NOTE,
                   "the scripted run is small and mostly concrete (orders at fixed crossing prices); the subject is "
                   "the dispatch of hooks, symbolic are the hook specifications",)
    outside = ("more than 3 time entries per hook / 3 hooks per event", "hook types beyond the 5 kinds pams defines",
               "time lists not in non-decreasing order")
    agreement_runs = 8

    def cases(self, tier):
        out = []
        lens = (None, 0, 1, 2) if tier == "quick" else (None, 0, 1, 2, 3)
        for typ, before in HOOK_KINDS:
            filters = [None] if typ != "market" else [None, "class:Market", "class:IndexMarket", "inst:M0", "inst:IDX",
                                                      "both:IndexMarket:M0", "both:IndexMarket:IDX", "both:Market:IDX"]
            for flt in filters:
                for n in lens:
                    out.append({"hooks": [{"type": typ, "before": before, "n": n, "filter": flt}], "where": 0})
            # two hooks of the same kind on one event: two timed ones, and a timed with an always-on one in both
            # registration orders
            for n1, n2 in ((1, 1), (1, None), (None, 1)):
                out.append({"hooks": [{"type": typ, "before": before, "n": n1, "filter": None},
                                      {"type": typ, "before": before, "n": n2, "filter": None}], "where": 0})
        # several market-step hooks with different filters on one occasion (every ordered pair, and one triple)
        fl = [None, "class:Market", "class:IndexMarket", "inst:M0", "inst:IDX"]
        for before in (True, False):
            for f1 in fl:
                for f2 in fl:
                    if f1 is None and f2 is None:
                        continue
                    out.append({"hooks": [{"type": "market", "before": before, "n": None, "filter": f1},
                                          {"type": "market", "before": before, "n": None, "filter": f2}], "where": 0})
            out.append({"hooks": [{"type": "market", "before": before, "n": None, "filter": "inst:IDX"},
                                  {"type": "market", "before": before, "n": 1, "filter": "class:IndexMarket"},
                                  {"type": "market", "before": before, "n": None, "filter": "inst:M0"}], "where": 0})
        # a run without a logger (market-step and session hooks)
        for typ, before in (("market", True), ("market", False), ("session", True), ("session", False)):
            out.append({"hooks": [{"type": typ, "before": before, "n": None, "filter": None}], "where": 0, "no_logger": True})
            out.append({"hooks": [{"type": typ, "before": before, "n": 2, "filter": None}], "where": 0, "no_logger": True})
        # the probe's class inherits all its handlers; another event is listed in the other session
        for typ, before in HOOK_KINDS:
            out.append({"hooks": [{"type": typ, "before": before, "n": None, "filter": None}], "where": 0, "inherit": True})
            out.append({"hooks": [{"type": typ, "before": before, "n": 1, "filter": None}], "where": 0, "other_session": True})
        if tier == "thorough":
            for typ, before in HOOK_KINDS:
                out.append({"hooks": [{"type": typ, "before": before, "n": 2, "filter": None}], "where": 1})
        out.append({"hooks": [{"type": "order", "before": True, "n": None, "filter": None}], "where": 0,
                    "rewrite": True})
        return out

    T = 3   # total number of steps (2 + 1)

    def run(self, g, case):
        hooks = []
        for i, sp in enumerate(case["hooks"]):
            times = None
            if sp["n"] is not None:
                times = [g.int(f"h{i}t{j}", -1, self.T + 1) for j in range(sp["n"])]
                for j in range(1, len(times)):
                    g.assume(times[j - 1] <= times[j])      # lists are tried in non-decreasing order only
            hooks.append({"type": sp["type"], "before": sp["before"], "times": times, "filter": sp["filter"]})
        markets = {"M0": {"class": "Market", "tickSize": 1, "marketPrice": 300, "outstandingShares": 100},
                   "IDX": {"class": "IndexMarket", "tickSize": 1, "marketPrice": 300, "markets": ["M0"]}}
        sessions = [rn.session(0, 2, True, True, maxNormalOrders=2), rn.session(1, 1, True, True, maxNormalOrders=2)]
        sessions[case["where"]]["events"] = ["EV"]
        extra = {"EV": {"class": "InheritingProbe" if case.get("inherit") else "SpecProbe"}}
        if case.get("other_session"):
            sessions[1 - case["where"]]["events"] = ["IDLE"]
            extra["IDLE"] = {"class": "IdleEvent"}
        st = rn.base_settings(n_agents=2, sessions=sessions, markets=markets, extra=extra)
        st["A"]["markets"] = ["M0"]
        # agent 0 buys at 310, agent 1 sells at 290 (always crossing), one of them may cancel instead
        # agent 0 buys at t=0 and buys again or cancels at t=1, and sells at t=2 (crossing its own resting bid
        # if there is one: a self-trade); agent 1 sells at t=1 and t=2 (always crossing)
        menu = {"acts": ["limit", "cancel"], "per_agent": {"0": {"side_by_time": {"0": "B", "1": "B", "2": "S"},
                                                                 "active": [0, 2]},
                                                           "1": {"side": "S", "active": [1, 2]}},
                "vol_fixed": 1, "price_fixed": 300, "hooks": hooks, "rewrite": case.get("rewrite"),
                "acts_by_time": {"0": ["limit"], "1": ["limit", "cancel"], "2": ["limit"]}}
        ctx = rn.make_run(g, st, menu, classes=(SpecProbe, InheritingProbe, IdleEvent),
                          **({"logger_cls": None} if case.get("no_logger") else {}))
        ctx.rewritten = {}
        ctx.runner._run()
        self.oracle(g, ctx, hooks, case)

    def oracle(self, g, ctx, hooks, case):
        ev, sim = ctx.events, ctx.sim
        # --- occurrences (ground truth from callbacks / records / the session list)
        occ = {k: [] for k in HOOK_KINDS}
        fills = []
        for kind, aid, p in ev:
            if kind == "submitted":
                occ["order", False].append((p.time, None, ("log", p)))
                occ["order", True].append((p.time, None, ("order-of-log", p)))
            elif kind == "canceled":
                g.note("cancel")
                occ["cancel", False].append((p.cancel_time, None, ("log", p)))
                occ["cancel", True].append((p.cancel_time, None, ("cancel-of-log", p)))
            elif kind in ("log-write", "log-direct") and isinstance(p, ExecutionLog) and not any(p is f for f in fills):
                fills.append(p)
                g.note("fill")
                occ["execution", False].append((p.time, None, ("log", p)))
        t = 0
        for s in sim.sessions:
            occ["session", True].append((t, None, ("session", s)))
            occ["session", False].append((t + s.iteration_steps - 1, None, ("session", s)))
            for step in range(s.iteration_steps):
                for m in sim.markets:
                    occ["market", True].append((t + step, m, ("step", (m, t + step))))
                    occ["market", False].append((t + step, m, ("step", (m, t + step))))
            t += s.iteration_steps
        # --- invocations
        inv = {k: [] for k in HOOK_KINDS}
        for kind, aid, p in ev:
            if kind.startswith("hook:"):
                typ, ba = kind[5:].rsplit("-", 1)
                inv[typ, ba == "before"].append(p)

        def same(key, payload):
            what, ref = key
            if what == "log":
                return payload is ref
            if what == "order-of-log":
                return isinstance(payload, Order) and payload.market_id == ref.market_id and \
                    payload.order_id is not None and bool(payload.order_id == ref.order_id)
            if what == "cancel-of-log":
                return isinstance(payload, Cancel) and payload.order.market_id == ref.market_id and \
                    bool(payload.order.order_id == ref.order_id) and payload.placed_at is not None and \
                    bool(payload.placed_at == ref.cancel_time)
            if what == "session":
                return payload is ref
            if what == "step":
                return payload[0] is ref[0] and payload[1] == ref[1]
            return False

        for k in HOOK_KINDS:
            mine = [h for h in hooks if (h["type"], h["before"]) == k]
            matched = 0
            for (time, market, key) in occ[k]:
                actual = sum(1 for p in inv[k] if same(key, p))
                exp = 0
                for h in mine:
                    fl = h["filter"]
                    if fl == "class:Market":
                        ok_f = isinstance(market, Market)
                    elif fl == "class:IndexMarket":
                        ok_f = isinstance(market, IndexMarket)
                    elif fl and fl.startswith("inst:"):
                        ok_f = market is sim.name2market[fl[5:]]
                    elif fl and fl.startswith("both:"):
                        _, cname, iname = fl.split(":")
                        ok_f = market is sim.name2market[iname] and \
                            isinstance(market, {"Market": Market, "IndexMarket": IndexMarket}[cname])
                    else:
                        ok_f = True
                    if not ok_f:
                        g.note("filter-excluded")
                        continue
                    if h["times"] is None:
                        exp = exp + 1
                    else:
                        exp = exp + ite(sor(*[tt == time for tt in h["times"]]), 1, 0)
                g.require(exp == actual, "C13.invocations!=matching-hooks",
                          f"{k[0]} {'before' if k[1] else 'after'} occurrence at t={time}: hook invoked {actual} times")
                if actual:
                    g.note("nontrivial")
                elif mine:
                    g.note("hook-not-fired-for-time")
                matched += actual
            g.require(matched == len(inv[k]), "C13.hook-invoked-without-occurrence",
                      f"{k}: {len(inv[k])} invocations, {matched} belong to an occurrence")
            for h in mine:
                if h["times"] is not None and len(h["times"]) >= 2 and bool(h["times"][0] == h["times"][1]):
                    g.note("time-list-with-repeated-entry")
        # --- a before-order hook may alter the pending order: the rewritten price is the accepted price
        if case.get("rewrite"):
            for kind, aid, p in ev:
                if kind == "submitted":
                    o = [x for os_ in ctx.own_orders.values() for x in os_
                         if x.order_id is not None and x.market_id == p.market_id and bool(x.order_id == p.order_id)][0]
                    if id(o) in ctx.rewritten:
                        g.require(p.price == ctx.rewritten[id(o)], "C13.before-hook-rewrite-lost")
                        g.note("rewrite")


class HookValidation(Harness):
    name = "HookValidation"
    title = "a hook cannot be registered twice; invalid hook specifications are refused"
    what_symbolic = "nothing numeric: enumeration of specification shapes (finite)"
    nontrivial_event = "every case"
    reach = ("nontrivial",)
    bounds = {"quick": "all 5 hook types x before/after x filter kinds", "thorough": "same"}
    agreement_runs = 0

    def cases(self, tier):
        return [{"k": k} for k in range(6)]

    def run(self, g, case):
        from pams.simulator import Simulator
        import random
        g.note("nontrivial")
        sim = Simulator(prng=random.Random(0))
        ev = rn.ProbeAll(event_id=0, prng=random.Random(0), session=None, simulator=sim, name="e")
        k = case["k"]
        if k == 0:
            h = EventHook(event=ev, hook_type="order", is_before=True, time=[g.int("t", 0, 5)])
            sim._add_event(h)
            try:
                sim._add_event(h)
                g.require(False, "C13.same-hook-registered-twice")
            except ValueError:
                pass
        elif k == 1:
            try:
                EventHook(event=ev, hook_type="execution", is_before=True)
                g.require(False, "C13.execution-before-accepted")
            except ValueError:
                pass
        elif k == 2:
            for typ in ("order", "cancel", "execution", "session"):
                for kw in ({"specific_class": Market}, {"specific_instance": mk_market()}):
                    try:
                        EventHook(event=ev, hook_type=typ, is_before=False, **kw)
                        g.require(False, "C13.filter-on-non-market-hook-accepted")
                    except ValueError:
                        pass
        elif k == 3:
            try:
                EventHook(event=ev, hook_type="bogus", is_before=False)
                g.require(False, "C13.unknown-hook-type-accepted")
            except ValueError:
                pass
        elif k == 4:
            for kw in ({"specific_class": int}, {"specific_instance": 3}):
                try:
                    EventHook(event=ev, hook_type="market", is_before=False, **kw)
                    g.require(False, "C13.incompatible-filter-accepted")
                except ValueError:
                    pass
        else:
            # two distinct hooks with the same specification are both registered and both fire
            h1 = EventHook(event=ev, hook_type="session", is_before=True)
            h2 = EventHook(event=ev, hook_type="session", is_before=True)
            sim._add_event(h1)
            sim._add_event(h2)
            g.require(len(sim.events_dict["session_before"][None]) == 2, "C13.distinct-hooks")


# =================================================================================================
# C14
class FundamentalShock(Harness):
    name = "FundamentalShock"
    title = "FundamentalPriceShock in a real multi-market, two-session run"
    what_symbolic = "the shock rate (any real > -1), agents' schedule; trigger offset / window / target are the case split"
    nontrivial_event = "the shock fired at least once"
    reach = ("nontrivial", "non-target-step-checked", "outside-window-step-checked")
    bounds = {"quick": "3 markets (zero volatility), sessions of 2+3 steps, shock in either session, trigger offset "
                       "0..2, window 1..3, enabled true/false, no orders; generation chunk 100 or shrunk to 2 steps "
                       "(chunk boundaries after the shock); a second shock with its own rate on an earlier, a later or the "
                       "same market with an overlapping window, or in the other session",
              "thorough": "all three targets for every placement"}
    assumptions = (rn.REDUCTION_NOTE,
                   "priceChangeRate is passed to the real setup() as a solver real (setup stores it unchecked)",
                   "zero volatility so that regeneration after the shock involves no sampling")
    agreement_runs = 6

    def cases(self, tier):
        out = []
        for where in (0, 1):
            for k in (0, 1, 2):
                for w in (1, 2, 3):
                    for target in ("M1",) if tier == "quick" and (k, w) != (0, 2) else ("M0", "M1", "M2"):
                        out.append({"where": where, "k": k, "w": w, "target": target, "enabled": True,
                                    "chunk": 2 if (k + w) % 2 else 100})
            out.append({"where": where, "k": 0, "w": 2, "target": "M1", "enabled": False})
            out.append({"where": where, "k": 1, "w": 0, "target": "M1", "enabled": True, "chunk": 100})   # empty window
            out.append({"where": where, "k": 0, "w": 2, "target": "M1", "enabled": True, "chunk": 100, "no_logger": True})
            out.append({"where": where, "k": 1, "w": 2, "target": "M2", "enabled": True, "chunk": 2, "no_logger": True})
            # a second shock (its own rate) whose window overlaps: on a market stepped earlier, later, or the same one
            for t2 in ("M0", "M2", "M1"):
                out.append({"where": where, "k": 0, "w": 2, "target": "M1", "enabled": True, "chunk": 100,
                            "second": {"target": t2, "k": 1, "w": 2, "where": where}})
            out.append({"where": where, "k": 1, "w": 1, "target": "M1", "enabled": True, "chunk": 2,
                        "second": {"target": "M2", "k": 1, "w": 1, "where": where}})
        out.append({"where": 0, "k": 1, "w": 2, "target": "M0", "enabled": True, "chunk": 100,
                    "second": {"target": "M1", "k": 0, "w": 2, "where": 1}})
        return out

    def run(self, g, case):
        rate = g.real("rate", -1, 10, lo_strict=True)
        markets = {f"M{i}": {"class": "Market", "tickSize": 1, "marketPrice": 300 + 10 * i} for i in range(3)}
        sessions = [rn.session(0, 2, False, False), rn.session(1, 3, False, False)]
        sessions[0]["events"] = ["PROBE"]
        sessions[case["where"]].setdefault("events", []).append("SHOCK")
        shock = {"class": "FundamentalPriceShock", "target": case["target"], "triggerTime": case["k"],
                 "priceChangeRate": rate, "shockTimeLength": case["w"], "enabled": case["enabled"]}
        extra = {"SHOCK": shock, "PROBE": {"class": "ProbeAll"}}
        shocks = [(case["where"], case["k"], case["w"], case["target"], rate, case["enabled"])]
        if case.get("second"):
            sc = case["second"]
            rate2 = g.real("rate2", -1, 10, lo_strict=True)
            sessions[sc["where"]].setdefault("events", []).append("SHOCK2")
            extra["SHOCK2"] = {"class": "FundamentalPriceShock", "target": sc["target"], "triggerTime": sc["k"],
                               "priceChangeRate": rate2, "shockTimeLength": sc["w"]}
            shocks.append((sc["where"], sc["k"], sc["w"], sc["target"], rate2, True))
        st = rn.base_settings(n_agents=1, sessions=sessions, markets=markets, extra=extra)
        before, after = {}, {}

        def on_event(kind, agent, p):
            if kind == "hook:market-before":
                # the first before-step occasion of a step: no shock of this step has fired yet; the values of all
                # markets for the new time are read here (the probe is listed before the shocks)
                for m_ in rn.RUN.sim.markets:
                    before.setdefault((m_.market_id, m_.get_time()), m_.get_fundamental_price())
            elif kind == "log-direct" and isinstance(p, MarketStepBeginLog):
                after[p.market.market_id, p.market.get_time()] = p.market.get_fundamental_price()
        ctx = rn.make_run(g, st, {"acts": ["none"]}, on_event=on_event,
                          **({"logger_cls": None} if case.get("no_logger") else {}))
        sim = ctx.sim
        sim.fundamentals._generate_chunk_size = case.get("chunk", 100)     # public instance attribute
        ctx.runner._run()
        # the recorded series themselves (zero drift and volatility): each value is the previous one times the factors
        # of the shocks that hit that market at that step -- independent of any hook or logger
        for m_ in sim.markets:
            series = m_.get_fundamental_prices(range(5))
            prev = markets[m_.name]["marketPrice"]
            for t_, v in enumerate(series):
                fac = 1
                for where, k, w, target, r, enabled in shocks:
                    start = 0 if where == 0 else 2
                    if enabled and m_.name == target and start + k <= t_ <= start + k + w - 1:
                        fac = fac * (1 + r)
                g.require(v == prev * fac, "C14.fundamental-series",
                          f"fundamental price of {m_.name} at t={t_} is not the previous value times the shocks of that step")
                prev = v
        if case.get("no_logger"):
            g.note("nontrivial")
            g.note("non-target-step-checked")
            g.note("outside-window-step-checked")
            return
        for (mid, t), b in sorted(before.items()):
            a = after[mid, t]
            factor, hit = 1, False
            for where, k, w, target, r, enabled in shocks:
                start = 0 if where == 0 else 2
                if enabled and mid == sim.name2market[target].market_id and start + k <= t <= start + k + w - 1:
                    factor, hit = factor * (1 + r), True
                    if len(shocks) > 1:
                        g.note("two-shocks")
            if hit:
                g.note("nontrivial")
                g.require(a == b * factor, "C14.shock-magnitude", f"market {mid} t={t}")
            else:
                g.note("non-target-step-checked" if all(mid != sim.name2market[x[3]].market_id for x in shocks)
                       else "outside-window-step-checked")
                g.require(a == b, "C14.fundamental-changed-outside-target-window",
                          f"fundamental of market {mid} changed at t={t} (shocks {[(x[0], x[1], x[2], x[3]) for x in shocks]})")
            if (mid, t + 1) in before:
                g.require(before[mid, t + 1] == a, "C14.later-values-continue-from-shocked-level",
                          f"market {mid}: value at t={t + 1} does not continue from the value at t={t}")
            g.observe(a)


class MistakeShock(Harness):
    name = "MistakeShock"
    title = "OrderMistakeShock replaces exactly one order: the first on its target market at its trigger time"
    what_symbolic = ("rate (real in (-1,1)), agents' decisions (which market, side, price, volume) and schedule")
    nontrivial_event = "the shock replaced an order"
    reach = ("nontrivial", "first-order-at-trigger-time-on-other-market", "second-order-on-target-untouched")
    bounds = {"quick": "2 markets, 2 sessions (1+2 steps), shock in either session, trigger time 0,1,2, rate sign "
                       "+/-/0, 2 agents quoting one limit order each per step (agent 0 buys, agent 1 sells, a third agent "
                       "either; market solver-chosen, price 10 off the market price) in the step before and at the trigger time",
              "thorough": "adds 3 agents for the trigger time 0 (one active step)"}
    assumptions = (rn.REDUCTION_NOTE,
                   "OrderMistakeShock.setup() is given a concrete float rate (it type-checks); the attribute is "
                   "then overwritten with a solver real of the same sign class",)
    agreement_runs = 6

    def cases(self, tier):
        out = []
        for where, k in ((0, 0), (1, 0), (1, 1)):
            for sign in ("+", "-", "0"):
                for enabled in (True, False):
                    if not enabled and sign != "+":
                        continue
                    for target in ("M0", "M1"):
                        out.append({"where": where, "k": k, "sign": sign, "enabled": enabled, "target": target, "A": 2})
                        if tier == "thorough" and (where, k) == (0, 0) and enabled:
                            # (measured: three agents over two active steps do not finish in 45 minutes)
                            out.append({"where": where, "k": k, "sign": sign, "enabled": enabled, "target": target, "A": 3})
        # a high-frequency agent next to one normal agent (either may be the first on the target market)
        for target in ("M0", "M1"):
            out.append({"where": 1, "k": 0, "sign": "-", "enabled": True, "target": target, "A": 1, "hft": 1})
        # the shock fires in a session that takes orders without executing them: the market price is frozen while
        # the quotes (asymmetric around it) move the mid price
        for target in ("M0", "M1"):
            out.append({"where": 1, "k": 1, "sign": "-", "enabled": True, "target": target, "A": 2, "noexec": True})
        # orders at the trigger time and in the step after it (a shock not used at its time stays unused)
        for where, k in ((0, 0), (1, 0)):
            for target in ("M0", "M1"):
                out.append({"where": where, "k": k, "sign": "+", "enabled": True, "target": target, "A": 2, "span": "post"})
        return out

    def run(self, g, case):
        markets = {f"M{i}": {"class": "Market", "tickSize": 1, "marketPrice": 300 + 100 * i} for i in range(2)}
        sessions = [rn.session(0, 1, True, True, maxNormalOrders=3),
                    rn.session(1, 2, True, not case.get("noexec"), maxNormalOrders=3)]
        sessions[0]["events"] = ["PROBE"]
        sessions[case["where"]].setdefault("events", []).append("SHOCK")
        shock = {"class": "OrderMistakeShock", "target": case["target"], "triggerTime": case["k"],
                 "priceChangeRate": {"+": 0.05, "-": -0.05, "0": 0.0}[case["sign"]], "orderVolume": 7,
                 "orderTimeLength": 2, "enabled": case["enabled"]}
        st = rn.base_settings(n_agents=case["A"], n_hft=case.get("hft", 0), sessions=sessions, markets=markets,
                              extra={"SHOCK": shock, "PROBE": {"class": "ProbeAll"}})
        mp_at = {}

        def on_event(kind, agent, p):
            if kind == "hook:order-before":
                mp_at[id(p)] = rn.RUN.sim.id2market[p.market_id].get_market_price()
        trigger = (0 if case["where"] == 0 else 1) + case["k"]
        # every agent quotes one non-crossing limit order per step on a solver-chosen market (buy below / sell
        # above the market price), from the step before the trigger time to the trigger time
        post = case.get("span") == "post"
        asym = {"price_rel": 30} if case.get("noexec") else {}
        menu = {"acts": ["limit"], "vol_fixed": 1, "price_rel": 10, "active_from": trigger if post else max(trigger - 1, 0),
                "active_until": trigger + 1 if post else trigger, "per_agent": {"0": {"side": "B"}, "1": dict({"side": "S"}, **asym)}}
        ctx = rn.make_run(g, st, menu, on_event=on_event)
        sim = ctx.sim
        rate = None
        for e in sim.events:
            if type(e).__name__ == "OrderMistakeShock":
                if case["sign"] == "+":
                    rate = g.real("rate", 0, 1, lo_strict=True, hi_strict=True)
                elif case["sign"] == "-":
                    rate = g.real("rate", -1, 0, lo_strict=True, hi_strict=True)
                else:
                    rate = 0.0
                e.price_change_rate = rate
        ctx.runner._run()
        tid = sim.name2market[case["target"]].market_id
        accepted = [(aid, p) for kind, aid, p in ctx.events if kind == "submitted"]
        replaced_seen = False
        first_at_trigger = True
        for aid, lg in accepted:
            o = [x for x in ctx.own_orders[aid] if x.order_id is not None and x.market_id == lg.market_id
                 and bool(x.order_id == lg.order_id)]
            # the shock may have changed the order's market? no: it never touches market_id
            o = o[0]
            ask = ctx.snap[id(o)]
            is_target_time = bool(lg.time == trigger)
            if is_target_time and first_at_trigger and lg.market_id != tid:
                g.note("first-order-at-trigger-time-on-other-market")
            if is_target_time:
                first_at_trigger = False
            expect_replaced = case["enabled"] and is_target_time and lg.market_id == tid and not replaced_seen
            if expect_replaced:
                replaced_seen = True
                g.note("nontrivial")
                x = mp_at[id(o)] * (1 + rate)
                is_buy = case["sign"] == "+"
                want = math.floor(x) if is_buy else math.ceil(x)
                g.require(sand(lg.kind == LIMIT_ORDER, lg.is_buy == is_buy, lg.volume == 7, lg.ttl == 2),
                          "C14.mistake-order-shape", "replaced order is not the configured limit order")
                g.require(lg.price == want, "C14.mistake-order-price",
                          "replaced order's price is not market price x (1 + rate) (tick-rounded)")
            else:
                if case["enabled"] and is_target_time and lg.market_id == tid:
                    g.note("second-order-on-target-untouched")
                # (an off-grid price -- 10 off a half-integer mid price -- is tick-rounded at acceptance, tick 1)
                want_p = ask["price"]
                if want_p is not None:
                    want_p = math.floor(want_p) if ask["is_buy"] else math.ceil(want_p)
                same = sand(lg.is_buy == ask["is_buy"], lg.kind == ask["kind"], lg.volume == ask["volume"],
                            (lg.price is None and want_p is None) or
                            (lg.price is not None and want_p is not None and lg.price == want_p),
                            (lg.ttl is None and ask["ttl"] is None) or (lg.ttl is not None and ask["ttl"] is not None
                                                                        and lg.ttl == ask["ttl"]))
                g.require(same, "C14.order-altered-by-mistake-shock",
                          f"order {lg.order_id} on market {lg.market_id} at t={lg.time} was accepted with values the agent did not ask for")
            g.observe(lg.price)


# =================================================================================================
# C15
class LimitRuleFn(Harness):
    cvc5_recheck = True      # thorough tier: obligations re-discharged with cvc5
    name = "LimitRuleFn"
    title = "real PriceLimitRule.get_limited_price / hooked_before_order on one order"
    what_symbolic = "order price (real > 0), trigger rate r >= 0 (real); reference price from a concrete set"
    nontrivial_event = "the price was clipped"
    reach = ("nontrivial", "inside-band", "on-edge")
    bounds = {"quick": "reference price in {300, 299.5, 0.75, 1000}, r in [0, 2], order price in (0, 1e6], limit and market orders, buy and sell",
              "thorough": "same"}
    outside = ("r < 0 (empty band)", "floating-point rounding at the band edge")
    agreement_runs = 12

    def cases(self, tier):
        return [{"ref": r, "is_buy": b, "market": mk, "other": ot} for r in (300, 299.5, 0.75, 1000)
                for b in (True, False) for mk in (False, True) for ot in (False, True)]

    def _rule(self, g, case, r):
        import random
        from pams.simulator import Simulator
        from pams.session import Session
        sim = Simulator(prng=random.Random(0))
        m = mk_market(tick=1 if case["ref"] == int(case["ref"]) else 0.25, price=case["ref"], sim=sim)
        m.name = "M"
        sim._add_market(m)
        other = mk_market(tick=1, price=500, sim=sim, market_id=1)
        other.name = "N"
        sim._add_market(other)
        rule = PriceLimitRule(event_id=0, prng=random.Random(0), session=None, simulator=sim, name="rule")
        rule.setup({"targetMarkets": ["M"], "triggerChangeRate": 0.5})
        rule.trigger_change_rate = r
        return sim, m, other, rule

    def run(self, g, case):
        r = g.real("r", 0, 2)
        sim, m, other, rule = self._rule(g, case, r)
        p0 = m.get_market_price(0)
        if case["other"]:
            # an order for a market that is not a target passes through untouched
            p = None if case["market"] else g.real("p", 0, 10 ** 6, lo_strict=True)
            o = Order(agent_id=0, market_id=1, is_buy=case["is_buy"], kind=MARKET_ORDER if case["market"] else LIMIT_ORDER,
                      volume=1, price=p)
            rule.hooked_before_order(simulator=sim, order=o)
            g.require((o.price is None and p is None) or (p is not None and o.price is not None and o.price == p),
                      "C15.non-target-order-altered")
            g.note("inside-band")
            return
        if case["market"]:
            o = Order(agent_id=0, market_id=0, is_buy=case["is_buy"], kind=MARKET_ORDER, volume=1)
            rule.hooked_before_order(simulator=sim, order=o)
            g.require(o.price is None and o.kind == MARKET_ORDER, "C15.market-order-altered")
            g.note("inside-band")
            return
        p = g.real("p", 0, 10 ** 6, lo_strict=True)
        o = Order(agent_id=0, market_id=0, is_buy=case["is_buy"], kind=LIMIT_ORDER, volume=1, price=p)
        rule.hooked_before_order(simulator=sim, order=o)
        q = o.price
        g.observe(q)
        lo, hi = p0 * (1 - r), p0 * (1 + r)
        g.require(sand(q >= lo, q <= hi), "C15.outside-band", "clipped price outside [p0(1-r), p0(1+r)]")
        inside = sand(p >= lo, p <= hi)
        g.require(sor(snot(inside), q == p), "C15.inside-band-price-changed")
        g.require(sor(inside, sand(p > hi, q == hi), sand(p < lo, q == lo)), "C15.not-clipped-to-nearest-edge")
        if bool(inside):
            g.note("inside-band")
            if bool(sor(p == lo, p == hi)):
                g.note("on-edge")
        else:
            g.note("nontrivial")


class AuditedRule(PriceLimitRule):
    """user class derived from the built-in rule; overrides nothing that matters (inherits hooked_before_order)."""

    def setup(self, settings, *args, **kwargs):
        super().setup(settings, *args, **kwargs)
        self.audited = True


class LimitRuleRun(Harness):
    name = "LimitRuleRun"
    title = "PriceLimitRule in a real run with target and non-target markets"
    what_symbolic = "order prices in [1,1000] and volumes, rate r in (0,1), agents' market choice and schedule"
    nontrivial_event = "an order for a target market was clipped"
    reach = ("nontrivial", "non-target-order-accepted", "fill-on-target")
    bounds = {"quick": "2 markets, target sets {M0},{M1},{M0,M1}, rule listed in session 0 or 1 of two 1-step sessions, "
                       "2 agents (buyer, seller) quoting once each at t=1 (one case at t=0, one with market orders) on a "
                       "solver-chosen market, price in [1,1000]; two rules with their own targets and solver-chosen rates; "
                       "an order-mistake shock on the target market declared after or before the rule",
              "thorough": "adds quoting over two steps"}
    assumptions = (rn.REDUCTION_NOTE,
                   "PriceLimitRule.setup() is given a concrete float rate; the attribute is overwritten with a solver real in (0,1)",)
    agreement_runs = 6

    def cases(self, tier):
        out = [{"targets": t, "where": w, "n1": 1, "active": [1, 1], "acts": ["limit"]}
               for t in (["M0"], ["M1"], ["M0", "M1"]) for w in (0, 1)]
        out.append({"targets": ["M0"], "where": 0, "n1": 1, "active": [0, 0], "acts": ["limit"]})
        out.append({"targets": ["M0", "M1"], "where": 0, "n1": 1, "active": [1, 1], "acts": ["limit"], "rule_first": True})
        # a high-frequency agent quoting after the normal agents' batches
        out.append({"targets": ["M0"], "where": 0, "n1": 1, "active": [1, 1], "acts": ["limit"], "only_m0": True, "hft": 1})
        # an order-mistake shock on a target market while the rule is active (the replaced order must be clipped too)
        out.append({"targets": ["M0"], "where": 0, "n1": 1, "active": [1, 1], "acts": ["limit"], "only_m0": True,
                    "mistake": True})
        # the same with the shock declared before the rule and the probe
        out.append({"targets": ["M0"], "where": 0, "n1": 1, "active": [1, 1], "acts": ["limit"], "only_m0": True,
                    "mistake": True, "mistake_first": True})
        # two rules with their own targets and rates
        out.append({"targets": ["M0"], "targets2": ["M1"], "where": 0, "n1": 1, "active": [1, 1], "acts": ["limit"]})
        out.append({"targets": ["M1"], "targets2": ["M0"], "where": 1, "n1": 1, "active": [1, 1], "acts": ["limit"]})
        out.append({"targets": ["M0"], "where": 0, "n1": 1, "active": [1, 1], "acts": ["limit", "market"]})
        # a user class derived from the rule that inherits its order hook
        out.append({"targets": ["M0"], "where": 0, "n1": 1, "active": [1, 1], "acts": ["limit"], "subclass": True})
        out.append({"targets": ["M0"], "where": 0, "n1": 1, "active": [0, 1], "acts": ["limit"], "only_m0": True})
        if tier == "thorough":
            out.append({"targets": ["M0"], "where": 0, "n1": 2, "active": [1, 2], "acts": ["limit"]})
            out.append({"targets": ["M0", "M1"], "where": 0, "n1": 1, "active": [0, 1], "acts": ["limit"]})
        return out

    def run(self, g, case):
        # (the fundamental price differs from the market price: the band is centred on the market price of time 0)
        markets = {f"M{i}": {"class": "Market", "tickSize": 1, "marketPrice": 300 + 100 * i,
                             "fundamentalPrice": 360 + 100 * i} for i in range(2)}
        sessions = [rn.session(0, 1, True, True, maxNormalOrders=2), rn.session(1, case["n1"], True, True, maxNormalOrders=2)]
        sessions[0]["events"] = ["PROBE"]
        if case.get("rule_first"):
            sessions[0]["events"] = ["RULE", "PROBE"]      # the rule is not the last configured event
        else:
            sessions[case["where"]].setdefault("events", []).append("RULE")
        extra = {"RULE": {"class": "AuditedRule" if case.get("subclass") else "PriceLimitRule",
                          "targetMarkets": case["targets"], "triggerChangeRate": 0.5},
                 "PROBE": {"class": "ProbeAll"}}
        if case.get("targets2"):
            sessions[case["where"]]["events"].append("RULE2")
            extra["RULE2"] = {"class": "PriceLimitRule", "targetMarkets": case["targets2"], "triggerChangeRate": 0.25}
        if case.get("mistake"):
            if case.get("mistake_first"):
                sessions[0]["events"].insert(0, "MISTAKE")
            else:
                sessions[0]["events"].append("MISTAKE")
            extra["MISTAKE"] = {"class": "OrderMistakeShock", "target": "M0", "triggerTime": 1, "priceChangeRate": -0.5,
                                "orderVolume": 1, "orderTimeLength": 2}
        st = rn.base_settings(n_agents=2 if not case.get("hft") else 1, n_hft=case.get("hft", 0), sessions=sessions,
                              markets=markets, extra=extra)
        if case.get("hft"):
            st["H"]["markets"] = ["M0"]
        p0_at, p0_fill = {}, {}

        def on_event(kind, agent, p):
            # "p0 = that market's price at time 0": the value recorded for time 0 as it reads at that moment
            # (during step 0 it still moves with the trades of step 0)
            if kind == "hook:order-before":
                p0_at[id(p)] = rn.RUN.sim.id2market[p.market_id].get_market_price(0)
            if kind == "log-write" and isinstance(p, ExecutionLog):
                p0_fill[id(p)] = rn.RUN.sim.id2market[p.market_id].get_market_price(0)
        menu = {"acts": case["acts"], "per_agent": {"0": {"side": "B"}, "1": {"side": "S"}},
                "price_hi": 1000, "vol_fixed": 1, "active_from": case["active"][0], "active_until": case["active"][1]}
        if case.get("only_m0"):
            st["A"]["markets"] = ["M0"]
        ctx = rn.make_run(g, st, menu, classes=(AuditedRule,), on_event=on_event)
        sim = ctx.sim
        # with orders in step 0 the reference price itself is a solver term: the rate is then a concrete number
        # so that the band stays linear in the solver variables
        r = g.real("r", 0, 1, lo_strict=True, hi_strict=True) if case["active"][0] > 0 and not case.get("hft") else 0.05
        r2 = g.real("r2", 0, 1, lo_strict=True, hi_strict=True) if case.get("targets2") else None
        replaced = {"n": 0}
        for e in sim.events:
            if isinstance(e, PriceLimitRule):
                e.trigger_change_rate = r2 if e.name == "RULE2" else r
        ctx.runner._run()
        rate_of = {sim.name2market[n].market_id: r for n in case["targets"]}
        rate_of.update({sim.name2market[n].market_id: r2 for n in case.get("targets2", [])})
        tids = list(rate_of)
        for kind, aid, lg in ctx.events:
            if kind == "submitted":
                o = [x for x in ctx.own_orders[aid] if x.order_id is not None and x.market_id == lg.market_id
                     and bool(x.order_id == lg.order_id)][0]
                ask = ctx.snap[id(o)]
                if lg.market_id in tids:
                    if lg.price is not None:
                        g.require(id(o) in p0_at, "C15.order-before-hooks-not-dispatched",
                                  "an event registered for every order (the recording probe listed next to the rule) "
                                  "was not called before this order was accepted")
                        p0 = p0_at[id(o)]
                        r = rate_of[lg.market_id]
                        lo, hi = p0 * (1 - r), p0 * (1 + r)
                        inside = sand(ask["price"] >= lo, ask["price"] <= hi)
                        if case.get("mistake") and lg.time == 1 and replaced["n"] == 0:
                            replaced["n"] = 1      # this order was replaced by the shock (C14): only the band applies
                            g.note("mistake-order-on-target")
                            g.require(sand(lg.price > lo - 1, lg.price < hi + 1),
                                      "C15.order-replaced-by-mistake-shock-outside-band+tick",
                                      f"the order written by the order-mistake shock was accepted on target market "
                                      f"{lg.market_id} outside the band widened by one tick")
                        else:
                            g.require(sand(lg.price > lo - 1, lg.price < hi + 1), "C15.accepted-price-outside-band+tick",
                                      f"order accepted on target market {lg.market_id} outside the band widened by one tick")
                            g.require(sor(snot(inside), lg.price == ask["price"]), "C15.inside-band-price-changed")
                        if not bool(inside):
                            g.note("nontrivial")
                    else:
                        g.require(ask["price"] is None, "C15.market-order-altered")
                else:
                    g.note("non-target-order-accepted")
                    g.require((lg.price is None and ask["price"] is None) or
                              (lg.price is not None and ask["price"] is not None and lg.price == ask["price"]),
                              "C15.non-target-order-altered")
            if kind in ("log-write",) and isinstance(lg, ExecutionLog) and lg.market_id in tids:
                g.note("fill-on-target")
                if lg.time > 0:
                    # both orders of the pair were clipped against the final time-0 price (or are market orders
                    # matched at a clipped price); during step 0 the reference itself moves with every trade
                    r = rate_of[lg.market_id]
                    lo, hi = p0_fill[id(lg)] * (1 - r), p0_fill[id(lg)] * (1 + r)
                    resting_from_step0 = False
                    for aid2, os_ in ctx.own_orders.items():
                        for x in os_:
                            if x.order_id is not None and x.market_id == lg.market_id and x.placed_at == 0 and \
                                    bool(sor(x.order_id == lg.buy_order_id, x.order_id == lg.sell_order_id)):
                                resting_from_step0 = True
                    if not resting_from_step0:
                        g.require(sand(lg.price > lo - 1, lg.price < hi + 1), "C15.trade-outside-band+tick")
                        g.note("fill-checked")


# =================================================================================================
# C16
class HaltTiming(Harness):
    name = "HaltTiming"
    title = "TradingHaltRule: halt decision, duration and resumption in real runs"
    what_symbolic = "trade prices (via agents' limit prices), rate r in (0,1), schedule; halt length and session layout are the case split"
    nontrivial_event = "a halt was triggered"
    reach = ("nontrivial", "fill-without-halt", "resumed", "order-accepted-during-halt", "halt-until-session-end")
    bounds = {"quick": "1 target market (+1 non-target; one case with two targets of one rule), halt length L in {1,2}, sessions [4 steps] / [2 steps, 2 steps "
                       "execution] / [2 steps, 2 steps without execution], 2 agents quoting from step 1 on (buy/sell; "
                       "solver-chosen prices in [1,1000] at step 1, 300 afterwards), rate r in (0,1)",
              "thorough": "5- and 6-step sessions with orders at solver-chosen prices at steps 1 and 3 only (second halt against "
                          "the doubled line), L = 1, 2; the same with two resting bids swept by one sell of 2 lots"}
    assumptions = (rn.REDUCTION_NOTE,
                   "TradingHaltRule.setup() gets a concrete float rate; the attribute is overwritten with a solver real in (0,1)",)
    agreement_runs = 6

    def cases(self, tier):
        out = []
        for L in (1, 2):
            out.append({"L": L, "layout": [[4, True]], "M": 1})
            out.append({"L": L, "layout": [[2, True], [2, True]], "M": 1})
            out.append({"L": L, "layout": [[2, True], [2, False]], "M": 1})
        out.append({"L": 1, "layout": [[3, True]], "M": 2})
        # one rule over two target markets: solver-chosen prices on the first at step 1 and on the second at step 2
        # (inside the first one's halt, if it fired), quotes at 300 on the first afterwards
        out.append({"L": 2, "layout": [[5, True]], "M": 2, "targets": ["M0", "M1"], "multi": True})
        # the same with the roles exchanged: the observed market is the second target of the rule
        out.append({"L": 2, "layout": [[5, True]], "M": 2, "targets": ["M1", "M0"], "multi": True, "observe": 1})
        # a halt cut short by the end of its session, then solver-chosen prices again in the next session (the halt
        # that was cut counts for the moving line)
        out.append({"L": 2, "layout": [[2, True], [3, True]], "M": 1, "second": True, "sparse": True})
        # the fill that may cross the line is a self-trade (one agent sells at step 1 and buys at step 2)
        out.append({"L": 1, "layout": [[5, True]], "M": 1, "self": True})
        # trades at several prices during step 0 (the time-0 reference keeps moving), a later excursion at step 2
        out.append({"L": 1, "layout": [[3, True]], "M": 1, "step0": True})
        if tier == "thorough":
            out.append({"L": 1, "layout": [[5, True]], "M": 1, "second": True, "sparse": True})
            out.append({"L": 2, "layout": [[6, True]], "M": 1, "second": True, "sparse": True})
            # two resting bids swept by one sell of 2 lots (several fills in the halting round), then a second
            # excursion after the resumption
            out.append({"L": 1, "layout": [[5, True]], "M": 1, "second": True, "sweep": True, "sparse": True})
        return out

    def run(self, g, case):
        markets = {f"M{i}": {"class": "Market", "tickSize": 1, "marketPrice": 300} for i in range(case["M"])}
        sessions = [rn.session(i, n, True, e, maxNormalOrders=2) for i, (n, e) in enumerate(case["layout"])]
        sessions[0]["events"] = ["HALT"]
        st = rn.base_settings(n_agents=3 if case.get("sweep") else (1 if case.get("self") else 2), sessions=sessions, markets=markets,
                              extra={"HALT": {"class": "TradingHaltRule", "targetMarkets": case.get("targets", ["M0"]),
                                              "triggerChangeRate": 0.5, "haltingTimeLength": case["L"]}})
        for sd in st["simulation"]["sessions"]:
            sd["maxNormalOrders"] = 3
        # step 0 is left without orders so that "the time-0 price" is the configured 300 (keeps the halt line
        # linear in the solver variables); step 1 has solver-chosen prices (does the trade cross the moving halt
        # line or not), later steps quote at 300 on both sides (a fill whenever the market is matching)
        menu = {"acts": ["limit"], "per_agent": {"0": {"side": "B"}, "1": {"side": "S"}}, "vol_fixed": 1,
                "price_hi": 1000, "active_from": 1,
                "price_by_time": {"1": "sym", "default": 300} if not case.get("second") else
                {"1": "sym", "3": "sym", "default": 300}}
        if case.get("sparse"):        # orders only in the two steps with solver-chosen prices
            menu["acts_by_time"] = {"0": ["none"], "1": ["limit"], "2": ["none"], "3": ["limit"], "4": ["none"]}
        if case.get("self"):
            menu["per_agent"] = {"0": {"side_by_time": {"1": "S", "2": "B", "3": "S", "4": "B"}}}
            menu["price_by_time"] = {"1": "sym", "2": "sym", "default": 300}
        if case.get("multi"):
            menu["price_by_time"] = {"1": "sym", "2": "sym", "default": 300}
            menu["market_by_time"] = {"1": 0, "2": 1, "3": 0, "4": 0}
            if case.get("observe") == 1:
                menu["market_by_time"] = {"1": 1, "2": 0, "3": 1, "4": 1}
        if case.get("sweep"):
            menu["per_agent"] = {"0": {"side": "B"}, "1": {"side": "S", "vol_fixed": 2}, "2": {"side": "B"}}
        if case.get("step0"):
            menu["active_from"] = 0
            menu["price_by_time"] = {"0": "sym", "2": "sym", "default": 300}
            menu["max_orders_by_time"] = {"0": 2}
            menu["acts_by_time"] = {"0": ["limit"], "1": ["none"], "2": ["limit"]}
        state = {"halts": 0, "halted_at": None, "obs": [], "at_fill": {}}
        r = None

        def on_event(kind, agent, p):
            ctx = rn.RUN
            sim = ctx.sim
            if sim is None:
                return
            if kind == "log-write" and isinstance(p, ExecutionLog):
                m = sim.id2market[p.market_id]
                g.require(m.is_running, "C16.fill-on-stopped-market", "a fill was recorded on a market that is not running")
            if kind == "executed":
                # read when the parties are notified = after the whole round, just before the rule looks:
                # the market's price and "its time-0 price" (the value recorded for time 0 as it reads now)
                m = sim.id2market[p.market_id]
                # "its price" after the fill is the price of that fill (C08: the market price follows the latest trade);
                # taken from the fill record, not read back from the market
                state["at_fill"][id(p)] = (p.price, m.get_market_price(0))
            if kind == "log-direct" and isinstance(p, (MarketStepBeginLog, MarketStepEndLog)):
                state["obs"].append((type(p).__name__, p.market.market_id, p.market.get_time(), p.market.is_running,
                                     p.session))
            if kind == "submitted" and not sim.id2market[p.market_id].is_running and \
                    ctx.declared_exec[sim.current_session.session_id]:
                g.note("order-accepted-during-halt")
        ctx = rn.make_run(g, st, menu, on_event=on_event)
        sim = ctx.sim
        ctx.declared_exec = {s.session_id: s.with_order_execution for s in sim.sessions}
        # with trades in step 0 the reference price is itself a solver term: a concrete rate keeps the line linear
        r = g.real("r", 0, 1, lo_strict=True, hi_strict=True) if not case.get("step0") else 0.05
        rule = [e for e in sim.events if type(e).__name__ == "TradingHaltRule"][0]
        rule.trigger_change_rate = r
        ctx.runner._run()
        # ---- expected halts, from the fills (ground truth: the logger's distinct fill records on the target)
        tid = case.get("observe", 0)
        win, t = {}, 0
        for s in sim.sessions:
            for k in range(s.iteration_steps):
                win[t + k] = (s, t, t + s.iteration_steps - 1)
            t += s.iteration_steps
        halts = 0
        halted_from = None      # (t0, last step of the halt)
        expected_stop = {}      # time -> True if the target must be stopped at the END of that step
        fills = []
        for kind, aid, p in ctx.events:
            if kind == "log-write" and isinstance(p, ExecutionLog) and p.market_id == tid and not any(p is f for f in fills):
                fills.append(p)
        for f in fills:
            if halted_from is not None and f.time <= halted_from[1]:
                continue     # cannot happen (checked above): fills while halted
            mp, p0 = state["at_fill"][id(f)]
            dev = abs(p0 - mp) >= p0 * r * (halts + 1)
            if bool(dev):
                s, lo, hi = win[f.time]
                halts += 1
                last = min(f.time + case["L"], hi)
                halted_from = (f.time, last)
                g.note("nontrivial")
                if last == hi and f.time + case["L"] >= hi:
                    g.note("halt-until-session-end")
                for tt in range(f.time, last + 1):
                    expected_stop[tt] = True
            else:
                g.note("fill-without-halt")
        for name, mid, tt, running, sess in state["obs"]:
            if mid != tid:
                continue
            declared = ctx.declared_exec[sess.session_id]
            if name == "MarketStepEndLog":
                if expected_stop.get(tt):
                    g.require(not running, "C16.market-not-stopped-during-halt",
                              f"target market running at the end of step {tt} although a halt is in force")
                elif declared:
                    g.require(running, "C16.market-stopped-without-halt",
                              f"target market not running at the end of step {tt} and no halt is in force")
            else:
                if declared and not expected_stop.get(tt - 1, False):
                    g.require(running, "C16.market-stopped-without-halt",
                              f"target market not running at the begin of step {tt}")
                if declared and expected_stop.get(tt - 1, False) and not expected_stop.get(tt, False) and \
                        win[tt][1] != tt:
                    # the step after the last halted step (same session): resumed
                    g.require(running, "C16.not-resumed-on-schedule", f"target market still stopped at the begin of step {tt}")
                    g.note("resumed")
                if declared and win[tt][1] == tt:
                    g.require(running, "C16.not-running-at-session-start",
                              "execution session starts with a stopped market")
                if not declared:
                    g.require(not running, "C16.running-in-session-without-execution")
        for f in fills:
            g.observe(f.price)


class RoundsUnderHalt(Harness):
    """C03 at system level: with a trading halt rule configured, the rounds the runner starts never fail."""
    assumptions = (rn.REDUCTION_NOTE,)
    name = "RoundsUnderHalt"
    title = "matching rounds started by the real runner around a trading halt terminate without raising"
    what_symbolic = "prices of the orders of the step in which the halt may fire, the halt rate, activation order"
    nontrivial_event = "a halt fired"
    reach = ("nontrivial", "order-after-halt-in-same-step", "cross-on-second-target-after-resume")
    bounds = {"quick": "(a) one market, seller of 2 lots and two buyers in the step of the halt; (b) two target markets of "
                       "one rule, halt on the first, resumption, then crossing quotes on the second; halt length 1; (c) a halt of 3 "
                       "steps fired in the last step of a 2-step execution session, then 4 steps without execution with "
                       "crossing quotes on another market",
              "thorough": "same"}
    agreement_runs = 4

    def cases(self, tier):
        return [{"kind": "same-step"}, {"kind": "two-targets"}, {"kind": "into-noexec", "both": False},
                {"kind": "into-noexec", "both": True}]

    def run(self, g, case):
        two = case["kind"] == "two-targets"
        carry = case["kind"] == "into-noexec"
        markets = {f"M{i}": {"class": "Market", "tickSize": 1, "marketPrice": 300} for i in range(2 if two or carry else 1)}
        sessions = [rn.session(0, 4, True, True, maxNormalOrders=3, events=["HALT"])]
        if carry:
            # a halt fired in the last step of an execution session and longer than it, followed by a session
            # without execution in which crossing quotes pile up on the other market
            sessions = [rn.session(0, 2, True, True, maxNormalOrders=3, events=["HALT"]),
                        rn.session(1, 4, True, False, maxNormalOrders=3, events=["HALT"] if case["both"] else [])]
        st = rn.base_settings(n_agents=2 if two or carry else 3, sessions=sessions, markets=markets,
                              extra={"HALT": {"class": "TradingHaltRule", "targetMarkets": ["M0"] if carry else list(markets),
                                              "triggerChangeRate": 0.5, "haltingTimeLength": 3 if carry else 1}})
        if carry:
            menu = {"acts": ["limit"], "vol_fixed": 1, "price_hi": 1000, "price_by_time": {"1": "sym", "default": 300},
                    "market_by_time": {"1": 0, "2": 1, "3": 1, "4": 1, "5": 1}, "active_from": 1,
                    "per_agent": {"0": {"side": "B"}, "1": {"side": "S"}}}
        elif two:
            # t=1: buyer and seller on M0 at solver-chosen prices (may halt); t=3 (after the resumption): crossing
            # quotes at 300 on M1
            menu = {"acts": ["limit"], "vol_fixed": 1, "price_hi": 1000, "price_by_time": {"1": "sym", "default": 300},
                    "market_by_time": {"1": 0, "3": 1},
                    "per_agent": {"0": {"side": "B", "acts_by_time": {"0": ["none"], "1": ["limit"], "2": ["none"], "3": ["limit"]}},
                                  "1": {"side": "S", "acts_by_time": {"0": ["none"], "1": ["limit"], "2": ["none"], "3": ["limit"]}}}}
        else:
            menu = {"acts": ["limit"], "price_hi": 1000, "price_by_time": {"1": "sym", "default": 300},
                    "per_agent": {"0": {"side": "B", "vol_fixed": 1, "active": [1, 1]},
                                  "1": {"side": "S", "vol_fixed": 2, "active": [1, 1]},
                                  "2": {"side": "B", "vol_fixed": 1, "active": [1, 1]}}}
        state = {"halted_at": None}

        def on_event(kind, agent, p):
            ctx = rn.RUN
            if ctx.sim is None:
                return
            if kind == "submitted":
                m = ctx.sim.id2market[p.market_id]
                if any(not x.is_running for x in ctx.sim.markets) and state["halted_at"] is None:
                    state["halted_at"] = p.time
                if state["halted_at"] is not None and p.time == state["halted_at"]:
                    g.note("order-after-halt-in-same-step")
                if two and p.market_id == 1 and p.time == 3 and state["halted_at"] is not None:
                    g.note("cross-on-second-target-after-resume")
            if kind == "log-direct" and isinstance(p, MarketStepEndLog) and state["halted_at"] is None and \
                    any(not x.is_running for x in ctx.sim.markets):
                state["halted_at"] = p.market.get_time()
        ctx = rn.make_run(g, st, menu, on_event=on_event)
        sim = ctx.sim
        r = g.real("r", 0, 1, lo_strict=True, hi_strict=True)
        for e in sim.events:
            if type(e).__name__ == "TradingHaltRule":
                e.trigger_change_rate = r
        ctx.runner._run()          # any exception escaping a round is reported by the engine with its call site
        if state["halted_at"] is not None or any(not x.is_running for x in sim.markets):
            g.note("nontrivial")
        # (a book left crossed by orders accepted during the halt is legitimate: rounds follow acceptances only)


class C03_RoundsUnderHalt(RoundsUnderHalt):
    pass


class C13_HookDispatch(HookDispatch):
    pass


class C13_HookValidation(HookValidation):
    pass


class C14_FundamentalShock(FundamentalShock):
    pass


class C14_MistakeShock(MistakeShock):
    pass


class C15_LimitRuleFn(LimitRuleFn):
    pass


class C15_LimitRuleRun(LimitRuleRun):
    pass


class C16_HaltTiming(HaltTiming):
    pass

"""C01 / C02-B / C03: one real clearing round from an arbitrary book (ClearingRound) and continuous
trading from the empty book (Continuous).  The same exploration carries three monitors; each
property's check switches on its own oracle."""
import itertools

from pams.logs import ExecutionLog, OrderLog

from sx import sand, sor, snot, ite, Violation
from sx.driver import Harness
from .common import RecLogger, mk_market, new_order, ranks_before, tick, PRICE_HI, VOL_HI


def _interleavings(nb, ns):
    """arrival orders of nb buys and ns sells with ids increasing within a side (slots of one side
    are interchangeable): tuples of 'B'/'S'."""
    for pos in itertools.combinations(range(nb + ns), nb):
        yield tuple("B" if i in pos else "S" for i in range(nb + ns))


class _Monitors:
    """oracles shared by the two harnesses; `acc` = list of accepted-order records."""

    def __init__(self, g, props):
        self.g = g
        self.props = props

    def check_round(self, m, acc, logs, lg_stream, pre_fill, incoming=None, resting_prices=None):
        """acc[i]: dict(id, is_buy, is_market, price, time, volume);  logs: ExecutionLogs returned by the
        round;  pre_fill[i]: volume already filled before this round."""
        g = self.g
        byid = {a["id"]: a for a in acc}
        if logs:
            g.note("nontrivial")
        if len(logs) >= 2:
            g.note("multi-fill")
        filled = {a["id"]: 0 for a in acc}
        for lg in logs:
            b = byid.get(lg.buy_order_id)
            s = byid.get(lg.sell_order_id)
            if "C01" in self.props:
                g.require(b is not None and s is not None and b["is_buy"] and not s["is_buy"],
                          "C01.pairs-buy-with-sell", f"fill {lg.buy_order_id}/{lg.sell_order_id}")
                g.require(lg.market_id == m.market_id, "C01.same-market")
                g.require(lg.volume > 0, "C01.positive-volume")
                if not b["is_market"]:
                    g.require(lg.price <= b["price"], "C01.price<=buy-limit",
                              "fill above the buyer's limit")
                if not s["is_market"]:
                    g.require(lg.price >= s["price"], "C01.price>=sell-limit",
                              "fill below the seller's limit")
                g.require(lg.price == logs[0].price, "C01.one-price-per-round")
            if b is not None:
                filled[b["id"]] = filled[b["id"]] + lg.volume
            if s is not None:
                filled[s["id"]] = filled[s["id"]] + lg.volume
            if b is not None and s is not None and b["is_market"] and s["is_market"]:
                g.note("market-market-pair")
            if b is not None and s is not None and (b["is_market"] != s["is_market"]):
                g.note("market-limit-pair")
        if logs and "C01" in self.props:
            last = logs[-1]
            b, s = byid[last.buy_order_id], byid[last.sell_order_id]
            g.require(not (b["is_market"] and s["is_market"]), "C01.last-pair-has-limit")
            if b["is_market"]:
                expect = s["price"]
            elif s["is_market"]:
                expect = b["price"]
            else:
                b_first = sor(b["time"] < s["time"], sand(b["time"] == s["time"], b["id"] < s["id"]))
                expect = ite(b_first, b["price"], s["price"])
                if b["time"] == s["time"]:
                    g.note("same-time-pair")
            g.require(last.price == expect, "C01.price-of-earlier-order-of-last-pair",
                      "round price is not the resting side's limit")
            if incoming is not None and resting_prices is not None:
                # continuous trading: the price was already resting in the book -- unless the incoming
                # limit order met a resting market order (then it is the incoming order's own limit)
                inc = byid[incoming]
                allowed = [last.price == p for p in resting_prices]
                cp = s if last.buy_order_id == incoming else b
                if not inc["is_market"] and cp["is_market"]:
                    allowed.append(last.price == inc["price"])
                g.require(sor(*allowed) if allowed else False, "C01.continuous-price-was-resting",
                          "round price is not a price that was resting before the incoming order")
        if "C02" in self.props:
            for a in acc:
                for o in acc:
                    if a is o or a["is_buy"] != o["is_buy"]:
                        continue
                    # o got a fill in this round while a ranks before o  ==> a fully filled
                    got = filled[o["id"]] > 0
                    higher = ranks_before(a, o)
                    full = (pre_fill[a["id"]] + filled[a["id"]]) == a["volume"]
                    g.require(sor(snot(got), snot(higher), full), "C02.priority",
                              f"order {o['id']} filled while higher-priority order {a['id']} keeps volume")
        if "C03" in self.props:
            self.check_uncrossed(m)
        # stream consistency: the round's records reach the logger
        return filled

    def check_uncrossed(self, m, tag=None):
        g = self.g
        bb, sb = m.get_buy_order_book(), m.get_sell_order_book()
        if len(bb) == 0 or len(sb) == 0:
            return
        b_mkt, s_mkt = None in bb, None in sb
        if b_mkt and s_mkt:
            g.note("post:both-market")      # outside the property's hypothesis
            return
        g.require(not b_mkt and not s_mkt, tag or "C03.market-order-left-against-limit",
                  "a market order faces a limit order after the round")
        g.require(m.get_best_buy_price() < m.get_best_sell_price(), tag or "C03.book-still-crossed",
                  "best bid >= best ask after the round")
        g.note("post:uncrossed-two-sided")


class ClearingRound(Harness):
    """arbitrary book accumulated with matching off -> ONE real Market._execution()."""
    name = "ClearingRound"
    title = "one real matching round from an arbitrary book built through _add_order"
    what_symbolic = ("limit prices in [1,1e6], volumes in [1,1e4], acceptance times (any non-decreasing "
                     "assignment over ids), kinds and sides and arrival interleaving (case split)")
    nontrivial_event = "the round produced at least one fill"
    shapes = {"quick": [(2, 2), (3, 1), (1, 3), (2, 1), (1, 2), (1, 1)],
              "thorough": [(2, 2), (3, 1), (1, 3), (2, 1), (1, 2), (1, 1), (3, 2), (2, 3)]}
    bounds = {
        "quick": "resting buys x sells in {(1,1),(2,1),(1,2),(2,2),(3,1),(1,3)}, every limit/market kind "
                 "pattern, every arrival interleaving, one round",
        "thorough": "as quick plus (3,2) and (2,3)",
    }
    reach = ("nontrivial", "multi-fill", "market-market-pair", "market-limit-pair", "same-time-pair",
             "post:uncrossed-two-sided")
    assumptions = (
        "ClearingRound: acceptance times are overwritten after _add_order with symbolic ints that are "
        "non-decreasing in order id (every such assignment is produced by some pattern of clock ticks; "
        "the heap built at equal times stays valid because (time,id) order equals id order)",
        "prices are on the tick grid (tick 1); off-grid prices are C19's subject",
    )
    outside = ("more than 3 resting orders on a side / 5 in total", "float rounding of prices")
    props = ("C01", "C02", "C03")

    def cases(self, tier):
        out = []
        for nb, ns in self.shapes[tier]:
            for arr in _interleavings(nb, ns):
                for kinds in itertools.product((0, 1), repeat=nb + ns):   # 1 = market order
                    out.append({"arrival": "".join(arr), "kinds": "".join(map(str, kinds))})
        return out

    def run(self, g, case):
        lg = RecLogger()
        m = mk_market(tick=1, price=300, logger=lg, running=False)
        for _ in range(3):
            tick(m)
        acc = []
        tprev = 0
        orders = []
        for i, (side, k) in enumerate(zip(case["arrival"], case["kinds"])):
            o = new_order(g, str(i), is_buy=(side == "B"), market=(k == "1"))
            vol, price = o.volume, o.price
            log = m._add_order(o)
            t = g.int(f"t_{i}", 0, 3)
            g.assume(t >= tprev)
            tprev = t
            o.placed_at = t
            orders.append(o)
            acc.append({"id": log.order_id, "is_buy": o.is_buy, "is_market": k == "1", "price": price,
                        "time": t, "volume": vol})
        m._is_running = True
        mon = _Monitors(g, self.props)
        logs = m._execution()
        for x in logs:
            g.observe(x.price)
            g.observe(x.volume)
        mon.check_round(m, acc, logs, lg, {a["id"]: 0 for a in acc})


class Continuous(Harness):
    """from the empty book, N orders with a real matching round after each (continuous trading),
    real clock ticks in between."""
    name = "Continuous"
    title = "continuous trading: N submissions, a real round after each, real clock ticks between"
    what_symbolic = "limit prices (>= 0; 0 is what a sub-tick bid is floored to), volumes; kinds, sides and tick pattern are the case split"
    nontrivial_event = "at least one round produced a fill"
    bounds = {"quick": "N <= 3 orders, every side/kind pattern, a clock tick or none between orders",
              "thorough": "N <= 4 orders"}
    reach = ("nontrivial", "market-limit-pair")
    n_max = {"quick": 3, "thorough": 4}
    props = ("C01", "C02", "C03")
    assumptions = ("prices are on the tick grid (tick 1)",)
    outside = ("more than 4 orders in a continuous history",)

    def cases(self, tier):
        out = []
        for n in range(2, self.n_max[tier] + 1):
            for sides in itertools.product("BS", repeat=n):
                for kinds in itertools.product("01", repeat=n):
                    for ticks in itertools.product("01", repeat=n - 1):
                        out.append({"sides": "".join(sides), "kinds": "".join(kinds), "ticks": "".join(ticks)})
        # submitted prices off the tick grid (any positive real, tick 1): limit orders only, N = 3
        for sides in itertools.product("BS", repeat=3):
            for ticks in ("00", "11"):
                out.append({"sides": "".join(sides), "kinds": "000", "ticks": ticks, "real": True})
        return out

    def run(self, g, case):
        lg = RecLogger()
        m = mk_market(tick=1, price=300, logger=lg, running=True)
        mon = _Monitors(g, self.props)
        acc = []
        pre = {}
        n = len(case["sides"])
        for i in range(n):
            if i > 0 and case["ticks"][i - 1] == "1":
                tick(m)
            is_buy = case["sides"][i] == "B"
            # accepted price 0 is legal (a positive bid below one tick is floored to it)
            if case.get("real"):
                o = new_order(g, str(i), is_buy=is_buy, price=g.real(f"pr_{i}", 0, 1000, lo_strict=True))
            else:
                o = new_order(g, str(i), is_buy=is_buy, market=case["kinds"][i] == "1", price_lo=0)
            vol = o.volume
            submitted = o.price
            log = m._add_order(o)
            price = log.price          # the accepted (tick-rounded) limit
            rec = {"id": log.order_id, "is_buy": is_buy, "is_market": case["kinds"][i] == "1",
                   "price": price, "time": m.get_time(), "volume": vol, "submitted": submitted}
            resting_prices = [a["price"] for a in acc if not a["is_market"]]
            acc.append(rec)
            pre[rec["id"]] = pre.get(rec["id"], 0)
            logs = m._execution()
            for x in logs:
                g.observe(x.price)
                g.observe(x.volume)
                if "C01" in self.props and case.get("real"):
                    # the limit the agent submitted (before tick rounding) is honoured as well
                    for a in acc:
                        if a["id"] == x.buy_order_id and a["is_buy"]:
                            g.require(x.price <= a["submitted"], "C01.price<=submitted-buy-limit",
                                      f"buy order {a['id']} submitted with limit {a['submitted']} filled at {x.price}")
                        if a["id"] == x.sell_order_id and not a["is_buy"]:
                            g.require(x.price >= a["submitted"], "C01.price>=submitted-sell-limit",
                                      f"sell order {a['id']} submitted with limit {a['submitted']} filled at {x.price}")
            filled = mon.check_round(m, acc, logs, lg, dict(pre), incoming=rec["id"],
                                     resting_prices=resting_prices)
            for a in acc:
                pre[a["id"]] = pre[a["id"]] + filled[a["id"]]


# ---- per-property instantiations (each property's command asserts only its own oracle) ------------
class C01_ClearingRound(ClearingRound):
    props = ("C01",)
    reach = ("nontrivial", "multi-fill", "market-market-pair", "market-limit-pair", "same-time-pair")


class C01_Continuous(Continuous):
    props = ("C01",)


class C02_ClearingRound(ClearingRound):
    props = ("C02",)
    reach = ("nontrivial", "multi-fill", "market-limit-pair")


class C02_Continuous(Continuous):
    props = ("C02",)


class C03_ClearingRound(ClearingRound):
    props = ("C03",)
    reach = ("nontrivial", "post:uncrossed-two-sided", "post:both-market", "market-market-pair")


class C03_Continuous(Continuous):
    props = ("C03",)
    reach = ("nontrivial", "post:uncrossed-two-sided")

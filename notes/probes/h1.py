import random, warnings
from typing import List, Optional
from pams.market import Market
from pams.order import Order, LIMIT_ORDER, MARKET_ORDER, Cancel

class _Sim:  # minimal stand-in; Market only stores it
    pass

def mk_market():
    m = Market(market_id=0, prng=random.Random(0), simulator=_Sim(), name="m")
    m.setup({"tickSize": 1, "marketPrice": 10})
    m._update_time(next_fundamental_price=10)
    m._is_running = True
    return m

def run3(b1: bool, b2: bool, b3: bool, k1: bool, k2: bool, k3: bool,
         p1: int, p2: int, p3: int, v1: int, v2: int, v3: int) -> bool:
    """
    pre: 1 <= p1 <= 3 and 1 <= p2 <= 3 and 1 <= p3 <= 3
    pre: 1 <= v1 <= 2 and 1 <= v2 <= 2 and 1 <= v3 <= 2
    post: _
    """
    warnings.simplefilter("ignore")
    m = mk_market()
    orders = []
    fills = []
    for (b, k, p, v) in ((b1, k1, p1, v1), (b2, k2, p2, v2), (b3, k3, p3, v3)):
        o = Order(agent_id=0, market_id=0, is_buy=b, kind=(MARKET_ORDER if k else LIMIT_ORDER),
                  volume=v, price=(None if k else p))
        orders.append((o, p if not k else None))
        m._add_order(o)
        logs = m._execution()
        prices = set()
        for lg in logs:
            bo = orders[lg.buy_order_id][1]
            so = orders[lg.sell_order_id][1]
            if bo is not None and not (lg.price <= bo):
                return False
            if so is not None and not (lg.price >= so):
                return False
        if len(logs) > 1:
            for lg in logs[1:]:
                if lg.price != logs[0].price:
                    return False
    return True

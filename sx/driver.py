"""Check driver: case splitting over a process pool, replay of counterexamples, known findings,
evidence files and exit codes.  No z3 call happens in the parent before the pool is forked."""
import argparse
import hashlib
import importlib
import json
import multiprocessing as mp
import os
import random
import sys
import time
import traceback

VERIF = os.path.dirname(os.path.dirname(os.path.abspath(__file__)))
REPO = os.path.abspath(os.environ.get("PAMS_VERIF_REPO", "/repo"))
EXIT_OK, EXIT_VIOLATION, EXIT_ERROR = 0, 1, 2


def bootstrap():
    """make `z3`, `sx`, `harness` and the pams working tree importable; never write bytecode."""
    sys.dont_write_bytecode = True
    for p in (REPO, VERIF, os.path.join(VERIF, ".deps")):
        if p in sys.path:
            sys.path.remove(p)
        sys.path.insert(0, p)
    import warnings
    warnings.simplefilter("ignore")
    from harness.mathstub import install_global_math
    install_global_math()       # before pams is imported (covers `from math import isclose` too)
    import pams  # noqa
    if not os.path.abspath(pams.__file__).startswith(REPO + os.sep):
        raise RuntimeError(f"pams imported from {pams.__file__}, expected under {REPO}")


class Harness:
    """Base class of all harnesses.  Subclasses define `name`, `cases(tier)`, `run(g, case)`."""
    name = "?"
    title = ""
    what_symbolic = ""
    bounds = {"quick": "", "thorough": ""}
    reach = ()            # note tags that must be reached at least once over the whole run
    reach_thorough = ()   # additional tags for the thorough tier
    stubs = ()
    assumptions = ()
    outside = ()
    agreement_runs = 12   # concolic agreement samples per check run
    max_decisions = 4000
    query_timeout_ms = 20000

    def cases(self, tier):
        return [{}]

    def run(self, g, case):
        raise NotImplementedError

    def case_label(self, case):
        return json.dumps(case, sort_keys=True, default=str)


# ------------------------------------------------------------------------------------------------
# worker side

_H = {}


def _harness(modname, clsname):
    key = (modname, clsname)
    if key not in _H:
        bootstrap()
        mod = importlib.import_module(modname)
        _H[key] = getattr(mod, clsname)()
    return _H[key]


def _profile_functions(fn):
    """run fn once under sys.setprofile; return the set of pams functions entered."""
    seen = set()
    root = os.path.join(REPO, "pams") + os.sep

    def prof(frame, event, arg):
        if event == "call":
            f = frame.f_code.co_filename
            if f.startswith(root):
                seen.add(f"{f[len(root) - 5:]}:{frame.f_code.co_qualname}")
    sys.setprofile(prof)
    try:
        fn()
    finally:
        sys.setprofile(None)
    return seen


def _work(unit):
    kind, modname, clsname, case, opts = unit
    t0 = time.time()
    out = {"kind": kind, "harness": clsname, "module": modname, "case": case, "error": None}
    try:
        h = _harness(modname, clsname)
        from sx.core import Engine, ConcreteEngine, PinnedEngine, Inconclusive
        roots = (REPO + os.sep,)
        if kind == "explore":
            g = Engine(query_timeout_ms=h.query_timeout_ms, max_decisions=h.max_decisions,
                       code_roots=roots)
            rc = None
            if opts.get("cvc5"):
                from sx.cvc5x import Cvc5Recheck
                rc = Cvc5Recheck()
                g.second_solver = rc
            samples = []
            funcs = set()

            def on_path(gg):
                if len(samples) < opts.get("samples", 1) and gg.symbolic:
                    try:
                        import z3
                        from sx.core import to_py, _jsonable, _val
                        if gg._check() == z3.sat:
                            m = gg.solver.model()
                            vals = {n: _jsonable(_val(m.eval(v, model_completion=True)))
                                    for n, v in gg.vars.items() if v.sort() != z3.BoolSort()}
                            obs = [_jsonable(to_py(m, x)) if not isinstance(x, (str, list, tuple, dict))
                                   else x for x in gg._obs][:40]
                            samples.append({"case": case, "witness_values": vals,
                                            "events": sorted(gg._notes), "observations": _safe(obs),
                                            "decisions": len(gg.trace)})
                    except Exception:  # noqa: BLE001
                        pass

            first = {"done": False}

            def fn(gg):
                if not first["done"] and opts.get("profile"):
                    first["done"] = True
                    box = {}

                    def once():
                        try:
                            h.run(gg, case)
                        except BaseException as e:  # noqa: BLE001
                            box["e"] = e
                    funcs.update(_profile_functions(once))
                    if "e" in box:
                        raise box["e"]
                    return
                h.run(gg, case)

            try:
                slice_end = time.time() + opts.get("slice_s", 4.0 if not opts.get("prefix") else 15.0)
                if opts.get("deadline"):
                    slice_end = min(slice_end, opts["deadline"])
                failures, exhausted = g.explore(
                    fn, deadline=slice_end, on_path=on_path,
                    max_paths=opts.get("max_paths"), start_prefix=opts.get("prefix"))
                out["inconclusive"] = None
                out["remaining"] = g.remaining
            except Inconclusive as e:
                failures, exhausted = [], False
                out["inconclusive"] = f"solver unknown: {e}"
                out["remaining"] = []
            out["opts"] = {k: v for k, v in opts.items() if k in ("case_id",)}
            out["cvc5"] = rc.summary() if rc is not None else None
            out.update(paths=g.paths, infeasible=g.infeasible_paths, queries=g.queries,
                       solver_s=g.solver_s, obligations=g.obligations, discharged=g.discharged,
                       notes=g.notes_total, failures=[f.as_dict() for f in failures],
                       exhausted=exhausted, samples=samples, funcs=sorted(funcs))
        elif kind == "replay":
            values = opts["values"]
            res = None
            mode = None
            for as_float in (True, False):
                cg = ConcreteEngine(values=values, as_float=as_float, code_roots=roots)
                res = cg.run(lambda gg: h.run(gg, case))
                mode = "float" if as_float else "exact-rational"
                if res is not None and res != "infeasible" and res.tag == opts["tag"]:
                    break
            if res is None:
                out["replay"] = {"reproduced": False, "outcome": "passed"}
            elif res == "infeasible":
                out["replay"] = {"reproduced": False, "outcome": "infeasible"}
            else:
                out["replay"] = {"reproduced": res.tag == opts["tag"], "outcome": res.as_dict(),
                                 "mode": mode}
        elif kind == "agree":
            rng = random.Random(opts["seed"])
            cg = ConcreteEngine(rng=rng, as_float=False, code_roots=roots)
            cres = cg.run(lambda gg: h.run(gg, case))
            if cres == "infeasible":
                out["agree"] = {"status": "skipped"}
            else:
                pg = PinnedEngine(cg.drawn, code_roots=roots, max_decisions=h.max_decisions)
                try:
                    pf, pobs = pg.run(lambda gg: h.run(gg, case))
                except Inconclusive as e:
                    pf, pobs = None, None
                    out["agree"] = {"status": "inconclusive", "why": str(e)}
                if pobs is not None:
                    ctag = None if cres is None else cres.tag
                    ptag = pf[0].tag if pf else None
                    cobs = [_norm(x) for x in cg._obs]
                    sobs = [_norm(x) for x in (pobs[0] if pobs else [])]
                    ok = (ctag == ptag) and _close(cobs, sobs) and len(pobs) == 1
                    out["agree"] = {"status": "ok" if ok else "MISMATCH", "values": _safe(cg.drawn),
                                    "concrete": [ctag, _safe(cobs)], "symbolic": [ptag, _safe(sobs)],
                                    "paths": len(pobs), "n_obs": len(cobs)}
    except BaseException as e:  # noqa: BLE001
        out["error"] = "".join(traceback.format_exception(type(e), e, e.__traceback__))[-3000:]
    out["wall"] = time.time() - t0
    return out


def _close(a, b):
    """observations agree: exactly for ints/bools/strings, up to 1e-9 relative for values that went through
    a CPython float operation in the concrete run (int / int, float * Fraction ...)."""
    import fractions
    if isinstance(a, list) and isinstance(b, list):
        return len(a) == len(b) and all(_close(x, y) for x, y in zip(a, b))
    if isinstance(a, fractions.Fraction) and isinstance(b, fractions.Fraction):
        if a == b:
            return True
        if a.denominator == 1 and b.denominator == 1:
            return False
        return abs(a - b) <= fractions.Fraction(1, 10 ** 9) * max(abs(a), abs(b), 1)
    return a == b


def _norm(x):
    import fractions
    if isinstance(x, bool) or x is None or isinstance(x, str):
        return x
    if isinstance(x, (int, float, fractions.Fraction)):
        return fractions.Fraction(x)
    if isinstance(x, (list, tuple)):
        return [_norm(y) for y in x]
    return repr(x)


def _safe(x):
    import fractions
    if isinstance(x, fractions.Fraction):
        return int(x) if x.denominator == 1 else f"{x.numerator}/{x.denominator}"
    if isinstance(x, dict):
        return {str(k): _safe(v) for k, v in x.items()}
    if isinstance(x, (list, tuple)):
        return [_safe(y) for y in x]
    if isinstance(x, (int, float, str, bool)) or x is None:
        return x
    return repr(x)


# ------------------------------------------------------------------------------------------------
# parent side

def load_known():
    p = os.path.join(VERIF, "known_findings.json")
    if not os.path.exists(p):
        return []
    return json.load(open(p))["findings"]


def match_known(known, prop, hname, tag, case):
    for k in known:
        if k.get("status") != "known" or k["property"] != prop:
            continue
        if k.get("harness") not in (None, hname) or k["tag"] != tag:
            continue
        cm = k.get("case_match") or {}
        if all(case.get(a) == b for a, b in cm.items()):
            return k
    return None


def run_check(prop, harness_specs, tier, seed, explanation, level="other", budget_s=None,
              extra_evidence=None, post=None):
    """harness_specs: list of (module name, class name).  Returns exit code."""
    t0 = time.time()
    bootstrap()
    budget_s = float(os.environ.get("VERIF_BUDGET_S", budget_s or (900 if tier == "quick" else 3600)))
    deadline = t0 + budget_s
    nproc = int(os.environ.get("VERIF_JOBS", min(16, os.cpu_count() or 1)))
    known = load_known()
    hs = [(m, c, _harness(m, c)) for m, c in harness_specs]
    rng = random.Random(seed)
    units = []
    for m, c, h in hs:
        cases = list(h.cases(tier))
        flt = os.environ.get("VERIF_CASE_FILTER")     # development aid only
        if flt:
            cases = [c_ for c_ in cases if flt in json.dumps(c_, sort_keys=True)]
        for i, case in enumerate(cases):
            units.append(("explore", m, c, case,
                          {"deadline": deadline, "profile": i == 0, "samples": 1 if i < 3 else 0,
                           "cvc5": bool(getattr(h, "cvc5_recheck", False)) and tier == "thorough"}))
        for k in range(h.agreement_runs if cases else 0):
            units.append(("agree", m, c, rng.choice(cases), {"seed": rng.randrange(1 << 30)}))
    # biggest cases are unknown a priori: shuffle for balance (seed only permutes the order)
    explore_units = [u for u in units if u[0] == "explore"]
    agree_units = [u for u in units if u[0] == "agree"]
    rng.shuffle(explore_units)
    units = agree_units + explore_units

    stats = {c: dict(cases=0, cases_exhausted=0, paths=0, infeasible=0, queries=0, solver_s=0.0,
                     obligations=0, discharged=0, notes={}, funcs=set(), samples=[],
                     agree_ok=0, agree_skipped=0, nontrivial_paths=0)
             for _, c, _ in hs}
    errors, inconclusive, violations, known_hits = [], [], [], {}
    cvc5_tot = {}
    pending_fail = []
    stop = False
    not_exhausted = 0

    import collections
    import queue as _queue
    ctx = mp.get_context("fork")
    pool = ctx.Pool(nproc, maxtasksperchild=100)
    rpool = ctx.Pool(1)       # replays must not queue behind the exploration units
    resq = _queue.Queue()
    pending = collections.deque()
    case_open = {}            # case_id -> number of outstanding sub-units
    case_ok = {}              # case_id -> all sub-units so far exhausted or split cleanly
    for i, u in enumerate(units):
        if u[0] == "explore":
            u[4]["case_id"] = i
            case_open[i] = 1
            case_ok[i] = True
        pending.append(u)
    outstanding = 0

    def submit(u):
        pool.apply_async(_work, (u,), callback=resq.put,
                         error_callback=lambda e, u=u: resq.put({"kind": u[0], "harness": u[2], "module": u[1],
                                                                 "case": u[3], "error": repr(e), "opts": u[4]}))
    try:
        while (pending or outstanding) and not stop:
            while pending and outstanding < nproc * 2:
                submit(pending.popleft())
                outstanding += 1
            try:
                r = resq.get(timeout=max(1.0, deadline - time.time() + 60))
            except _queue.Empty:
                break
            outstanding -= 1
            st = stats[r["harness"]]
            if r["error"]:
                errors.append((r["harness"], r["case"], r["error"]))
                continue
            if r["kind"] == "agree":
                a = r["agree"]
                if a["status"] == "ok":
                    st["agree_ok"] += 1
                elif a["status"] == "skipped":
                    st["agree_skipped"] += 1
                else:
                    errors.append((r["harness"], r["case"], "concolic agreement: " + json.dumps(a, default=str)[:1500]))
                continue
            cid = r["opts"]["case_id"]
            st["paths"] += r["paths"]
            st["infeasible"] += r["infeasible"]
            st["queries"] += r["queries"]
            st["solver_s"] += r["solver_s"]
            st["obligations"] += r["obligations"]
            st["discharged"] += r["discharged"]
            st["funcs"].update(r["funcs"])
            if len(st["samples"]) < 3:
                st["samples"].extend(r["samples"])
            for k, v in r["notes"].items():
                st["notes"][k] = st["notes"].get(k, 0) + v
            if r.get("cvc5"):
                for k_, v_ in r["cvc5"].items():
                    if isinstance(v_, int):
                        cvc5_tot[k_] = cvc5_tot.get(k_, 0) + v_
                if r["cvc5"]["cvc5_sat_disagreements"]:
                    errors.append((r["harness"], r["case"], "cvc5 answers sat on an obligation z3 proved: "
                                   + str(r["cvc5"]["cvc5_sat_disagreements"])))
            if r["inconclusive"]:
                inconclusive.append((r["harness"], r["case"], r["inconclusive"]))
                case_ok[cid] = False
            case_open[cid] -= 1
            if not r["exhausted"] and not r["inconclusive"]:
                if time.time() < deadline and r["remaining"]:
                    for pf in r["remaining"]:
                        pending.append(("explore", r["module"], r["harness"], r["case"],
                                        {"deadline": deadline, "prefix": pf, "case_id": cid, "samples": 0,
                                         "cvc5": r.get("cvc5") is not None}))
                        case_open[cid] += 1
                elif not r["failures"]:
                    case_ok[cid] = False
            if case_open[cid] == 0:
                st["cases"] += 1
                if case_ok[cid]:
                    st["cases_exhausted"] += 1
                else:
                    not_exhausted += 1
            seen_tags = set()
            for f in r["failures"]:
                if f["tag"] in seen_tags:
                    continue
                seen_tags.add(f["tag"])
                pending_fail.append((r, f))
            while pending_fail:
                rr, f = pending_fail.pop()
                key = (rr["harness"], f["tag"])
                k = match_known(known, prop, rr["harness"], f["tag"], rr["case"])
                if k is not None and key in known_hits:
                    continue
                if any(v["harness"] == rr["harness"] and v["tag"] == f["tag"] for v in violations):
                    continue
                rep = rpool.apply(_work, (("replay", rr["module"], rr["harness"], rr["case"],
                                           {"values": f["values"], "tag": f["tag"]}),))
                oc = (rep.get("replay") or {}).get("outcome")
                if not rep["error"] and not rep["replay"]["reproduced"] and isinstance(oc, dict) and oc.get("tag") \
                        and ".harness:" not in str(oc["tag"]):
                    # the concrete run on the real code fails too, but at another predicate (e.g. the symbolic run
                    # stopped at a type check that only proxies fail): what reproduces is what is reported
                    f = dict(f, tag=oc["tag"], message=oc.get("message", f.get("message", "")),
                             where=oc.get("where", f.get("where")), trace=oc.get("trace", f.get("trace")))
                    rep["replay"]["reproduced"] = True
                    key = (rr["harness"], f["tag"])
                    k = match_known(known, prop, rr["harness"], f["tag"], rr["case"])
                    if (k is not None and key in known_hits) or \
                            any(v["harness"] == rr["harness"] and v["tag"] == f["tag"] for v in violations):
                        continue
                if rep["error"] or not rep["replay"]["reproduced"]:
                    errors.append((rr["harness"], rr["case"],
                                   f"counterexample did not reproduce concretely: tag={f['tag']} "
                                   f"values={f['values']} replay={rep.get('replay')} err={rep['error']}"))
                    continue
                if k is not None:
                    known_hits[key] = (k, rr, f)
                    continue
                violations.append({"harness": rr["harness"], "module": rr["module"], "case": rr["case"],
                                   "tag": f["tag"], "message": f["message"], "values": f["values"],
                                   "where": f["where"], "trace": f["trace"],
                                   "replay_mode": rep["replay"].get("mode")})
                if not os.environ.get("VERIF_KEEP_GOING"):
                    stop = True
        if not stop:
            not_exhausted += sum(1 for c, n in case_open.items() if n > 0)
    finally:
        pool.terminate()
        rpool.terminate()
        pool.join()
        rpool.join()

    wall = time.time() - t0
    # ---- vacuity: reachability counters
    vacuous = []
    if not stop and not errors:
        for _, c, h in hs:
            need = list(h.reach) + (list(h.reach_thorough) if tier == "thorough" else [])
            for tag in need:
                if stats[c]["notes"].get(tag, 0) == 0:
                    vacuous.append(f"{c}: event '{tag}' never reached")
    if post is not None and not stop:
        try:
            post_res = post(tier, stats)
        except Exception as e:  # noqa: BLE001
            errors.append(("post", {}, "".join(traceback.format_exception(type(e), e, e.__traceback__))))
            post_res = None
    else:
        post_res = None

    # ---- report
    os.makedirs(os.path.join(VERIF, "replays"), exist_ok=True)
    for (hn, tag), (k, rr, f) in sorted(known_hits.items()):
        print(f"KNOWN-FINDING: property={prop} {k['what']} [harness={hn} tag={tag}]")
    vio_lines = []
    for v in violations:
        doc = {"property": prop, "tier": tier, "module": v["module"], "harness": v["harness"],
               "case": v["case"], "values": v["values"], "tag": v["tag"], "message": v["message"],
               "where": v["where"], "trace": v["trace"], "replay_mode": v["replay_mode"]}
        digest = hashlib.sha1(json.dumps(doc, sort_keys=True, default=str).encode()).hexdigest()[:10]
        path = os.path.join(VERIF, "replays", f"{prop}-{digest}.json")
        json.dump(doc, open(path, "w"), indent=1, default=str)
        vio_lines.append(f"VIOLATION property={prop} replay={path}")
        print(f"counterexample: harness={v['harness']} tag={v['tag']} case={json.dumps(v['case'], default=str)}")
        print(f"  {v['message']}")
        print(f"  values={json.dumps(v['values'], default=str)}")
        print(f"  at {v['where']}  trace={' > '.join(v['trace'])}")
    if post_res and post_res.get("violations"):
        for pv in post_res["violations"]:
            vio_lines.append(f"VIOLATION property={prop} replay={pv}")

    tot = lambda k: sum(s[k] for s in stats.values())  # noqa: E731
    nontrivial = {c: sum(v for k, v in s["notes"].items() if k.startswith("nt:")) for c, s in stats.items()}
    all_exh = (not_exhausted == 0 and not inconclusive and not errors and not stop
               and all(s["cases"] == s["cases_exhausted"] for s in stats.values()))
    cov = {
        "explanation": explanation,
        "evaluations": tot("paths"),
        "distinct_nontrivial": sum(s["notes"].get("nontrivial", 0) for s in stats.values()),
        "rule": ("one evaluation = one symbolic path (a distinct sequence of branch decisions of the real "
                 "code, standing for all numeric values satisfying its path condition); a path is "
                 "non-trivial when the harness's monitored event occurred on it (per harness: see "
                 "'harnesses[].nontrivial_event'); paths are distinct by construction of the DFS over "
                 "decision prefixes"),
        "samples": [s for st in stats.values() for s in st["samples"]][:6] or
                   [{"note": "no path sample recorded"}],
        "obligations": tot("obligations"),
        "discharged": tot("discharged"),
        "exhaustive": bool(all_exh),
        "queries": tot("queries"),
        "solver_s": round(tot("solver_s"), 2),
        "cases": tot("cases"),
        "cases_total": len(explore_units),
        "cases_exhausted": tot("cases_exhausted"),
        "infeasible_paths": tot("infeasible"),
        "functions_executed": sorted(set().union(*[s["funcs"] for s in stats.values()])),
        "harnesses": [
            {"name": c, "title": h.title, "symbolic": h.what_symbolic, "bounds": h.bounds.get(tier, ""),
             "nontrivial_event": getattr(h, "nontrivial_event", ""),
             "cases": stats[c]["cases"], "cases_exhausted": stats[c]["cases_exhausted"],
             "paths": stats[c]["paths"], "queries": stats[c]["queries"],
             "solver_s": round(stats[c]["solver_s"], 2),
             "obligations": stats[c]["obligations"], "discharged": stats[c]["discharged"],
             "events_reached": dict(sorted(stats[c]["notes"].items())),
             "concolic_agreement_ok": stats[c]["agree_ok"], "outside_claim": list(h.outside)}
            for _, c, h in hs],
        "stubs": sorted({s for _, _, h in hs for s in h.stubs}),
        "engine": "SX (own proxy-based symbolic executor over z3 %s); encoding regenerated by executing %s/pams on every run" % (_z3v(), REPO),
        "known_findings_reported": [f"{hn}:{tag}" for hn, tag in sorted(known_hits)],
        "not_exhausted_units": not_exhausted,
        "not_exhausted_cases": [{"harness": units[c][2], "case": units[c][3]} for c in sorted(case_open)
                                if not stop and (case_open[c] > 0 or not case_ok[c])][:40],
    }
    if cvc5_tot:
        cov["second_solver_cvc5"] = dict(cvc5_tot, note="assertion obligations that z3 proved by a real query, re-discharged "
                                         "with the cvc5 binary (path condition + negated obligation as SMT-LIB2); first 400 per unit")
    if extra_evidence:
        cov.update(extra_evidence)
    if post_res:
        cov.update(post_res.get("coverage", {}))
    ev = {
        "property_id": prop, "tier": tier, "seed": seed, "level": level, "coverage": cov,
        "assumptions": sorted({a for _, _, h in hs for a in h.assumptions}),
        "wall_s": round(wall, 2), "violations": len(vio_lines),
    }
    evdir = os.environ.get("VERIF_EVIDENCE_DIR", os.path.join(VERIF, "evidence"))   # override: development aid
    os.makedirs(evdir, exist_ok=True)
    json.dump(ev, open(os.path.join(evdir, f"{prop}.json"), "w"), indent=1, default=str)

    print(f"[{prop}/{tier}] cases={cov['cases']}/{cov['cases_total']} paths={cov['evaluations']} "
          f"nontrivial={cov['distinct_nontrivial']} queries={cov['queries']} solver_s={cov['solver_s']} "
          f"obligations={cov['obligations']}/{cov['discharged']} exhaustive={cov['exhaustive']} wall={wall:.1f}s")
    for line in vio_lines:
        print(line)
    if vio_lines:
        return EXIT_VIOLATION
    if errors or inconclusive or vacuous:
        for hn, case, e in errors[:5]:
            print(f"HARNESS-ERROR {hn} case={json.dumps(case, default=str)[:300]}\n{e}", file=sys.stderr)
        for hn, case, e in inconclusive[:5]:
            print(f"INCONCLUSIVE {hn} case={json.dumps(case, default=str)[:300]} {e}", file=sys.stderr)
        for v in vacuous:
            print(f"VACUOUS {v}", file=sys.stderr)
        return EXIT_ERROR
    if not all_exh:
        print(f"NOT-EXHAUSTED property={prop}: {not_exhausted} units unfinished within the {budget_s:.0f}s budget "
              f"(evidence says exhaustive=false)")
    return EXIT_OK


def _z3v():
    try:
        import z3
        return z3.get_version_string()
    except Exception:  # noqa: BLE001
        return "?"


def replay_file(path):
    bootstrap()
    doc = json.load(open(path))
    rep = _work(("replay", doc["module"], doc["harness"], doc["case"],
                 {"values": doc["values"], "tag": doc["tag"]}))
    if rep["error"]:
        print(rep["error"])
        return EXIT_ERROR
    print(json.dumps(rep["replay"], indent=1, default=str))
    if rep["replay"]["reproduced"]:
        print(f"VIOLATION property={doc['property']} replay={path}")
        return EXIT_VIOLATION
    print("replay: the recorded failure does not occur on this tree")
    return EXIT_OK

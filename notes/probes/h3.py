import random, warnings, heapq
from typing import List, Optional, Tuple
from pams.market import Market
from pams.order import Order, LIMIT_ORDER, MARKET_ORDER, Cancel

class _Sim:
    pass

def mk_market(now):
    m = Market(market_id=0, prng=random.Random(0), simulator=_Sim(), name="m")
    m.setup({"tickSize": 1, "marketPrice": 10})
    m._update_time(next_fundamental_price=10)
    for _ in range(now):
        m._update_time(next_fundamental_price=10)
    m._is_running = True
    return m

def one_round(kb1: bool, kb2: bool, ks1: bool, ks2: bool,
         pb1: int, pb2: int, ps1: int, ps2: int,
         vb1: int, vb2: int, vs1: int, vs2: int,
         tb1: int, tb2: int, ts1: int, ts2: int,
         perm: int) -> bool:
    """
    pre: 1 <= pb1 <= 1000 and 1 <= pb2 <= 1000 and 1 <= ps1 <= 1000 and 1 <= ps2 <= 1000
    pre: 1 <= vb1 <= 100 and 1 <= vb2 <= 100 and 1 <= vs1 <= 100 and 1 <= vs2 <= 100
    pre: 0 <= tb1 <= 3 and 0 <= tb2 <= 3 and 0 <= ts1 <= 3 and 0 <= ts2 <= 3
    pre: 0 <= perm < 24
    post: _
    """
    warnings.simplefilter("ignore")
    m = mk_market(3)
    specs = [(True, kb1, pb1, vb1, tb1), (True, kb2, pb2, vb2, tb2), (False, ks1, ps1, vs1, ts1), (False, ks2, ps2, vs2, ts2)]
    # order ids: a permutation of 0..3 consistent with placed_at (id order refines time order)
    import itertools
    ids = list(itertools.permutations(range(4)))[perm]
    orders = []
    for i, (b, k, p, v, t) in enumerate(specs):
        o = Order(agent_id=0, market_id=0, is_buy=b, kind=(MARKET_ORDER if k else LIMIT_ORDER), volume=v,
                  price=(None if k else p), placed_at=t, order_id=ids[i])
        orders.append(o)
    for a in orders:
        for b_ in orders:
            if a.order_id < b_.order_id and not (a.placed_at <= b_.placed_at):
                return True  # outside invariant
    byid = {o.order_id: (o, o.price, o.volume) for o in orders}
    m.buy_order_book.priority_queue = orders[:2]
    m.sell_order_book.priority_queue = orders[2:]
    heapq.heapify(m.buy_order_book.priority_queue)
    heapq.heapify(m.sell_order_book.priority_queue)
    m._next_order_id = 4
    logs = m._execution()
    for lg in logs:
        bo = byid[lg.buy_order_id]; so = byid[lg.sell_order_id]
        if bo[1] is not None and not (lg.price <= bo[1]): return False
        if so[1] is not None and not (lg.price >= so[1]): return False
        if lg.price != logs[0].price: return False
    # post: uncrossed
    bb = m.buy_order_book.get_best_order(); bs = m.sell_order_book.get_best_order()
    if bb is not None and bs is not None and (bb.price is not None or bs.price is not None):
        if bb.price is None or bs.price is None: return False
        if not (bb.price < bs.price): return False
    return True

"""RN driver: the real SequentialRunner (_setup + _run) with scripted agents whose every decision is a
solver variable, a recording logger and a recording event.  A scripted agent over-approximates every
deterministic or randomised user-written agent program within the bound on orders per consultation."""
import copy

from pams.agents import Agent, HighFrequencyAgent
from pams.events import EventABC, EventHook
from pams.logs import (CancelLog, ExecutionLog, ExpirationLog, Logger, MarketStepBeginLog, MarketStepEndLog,
                       OrderLog, SessionBeginLog, SessionEndLog, SimulationBeginLog, SimulationEndLog)
from pams.order import LIMIT_ORDER, MARKET_ORDER, Cancel, Order
from pams.runners import SequentialRunner

from .common import RecLogger, SymRandom, PRICE_HI, VOL_HI

REDUCTION_NOTE = ("activation order: the runner's sample() returns any permutation of the agents that can act at that step; "
                  "scripted agents outside their activity window (they return [] whatever their position) are appended in a "
                  "fixed order -- a symmetry reduction, not a restriction of the schedules that matter")

RUN = None     # the current run context (one run at a time per process)


class RunCtx:
    def __init__(self, g, menu):
        self.g = g
        self.menu = menu
        self.events = []         # chronological: (kind, agent_id, payload)
        self.consults = {}       # agent_id -> number of submit_orders calls
        self.own_orders = {}     # agent_id -> list of Order objects it created
        self.snap = {}           # id(order) -> what the agent asked for (before any event touched it)
        self.cancel_objs = {}    # id(order) -> the Cancel object handed in for it (menu cancel_objects = "reused")
        self.runner = None
        self.sim = None
        self.logger = None
        self.on_event = None     # callback(kind, agent, payload) for online oracles

    def emit(self, kind, agent, payload):
        self.events.append((kind, agent.agent_id if agent is not None else None, payload))
        if self.on_event is not None:
            self.on_event(kind, agent, payload)


def _acts_for(menu, aid, t, k):
    """the action menu of agent `aid` at time t (k = number of earlier consultations); [] = inert."""
    acts = menu.get("acts", ["none", "limit"])
    per_agent = menu.get("per_agent", {}).get(str(aid))
    if per_agent is not None:
        acts = per_agent.get("acts", acts)
    abt = (per_agent or {}).get("acts_by_time") or menu.get("acts_by_time")
    if abt:
        ks = [int(x) for x in abt if int(x) <= t]
        if ks:
            acts = abt[str(max(ks))]
    limit = menu.get("max_consults")
    if limit is not None and k >= limit:
        return []
    win = (per_agent or {}).get("active", [menu.get("active_from", 0), menu.get("active_until", 10 ** 9)])
    if t < win[0] or t > win[1]:
        return []
    return [a for a in acts if a != "none"] and acts


def is_inert(x):
    """True for a scripted agent that will certainly return [] if consulted now."""
    ctx = RUN
    if ctx is None or ctx.sim is None or not isinstance(x, (ScriptedAgent, ScriptedHFT, LateBoundAgent)):
        return False
    t = ctx.sim.markets[0].get_time()
    return not _acts_for(ctx.menu, x.agent_id, t, ctx.consults.get(x.agent_id, 0))


def _decide(agent, markets):
    """one consultation of a scripted agent: returns a list of Order/Cancel chosen by solver variables."""
    ctx = RUN
    g, menu = ctx.g, ctx.menu
    aid = agent.agent_id
    k = ctx.consults.get(aid, 0)
    ctx.consults[aid] = k + 1
    t = markets[0].get_time()
    ctx.emit("consult", agent, t)
    acts = menu.get("acts", ["none", "limit"])
    per_agent = menu.get("per_agent", {}).get(str(aid))
    if per_agent is not None:
        acts = per_agent.get("acts", acts)
    abt = (per_agent or {}).get("acts_by_time") or menu.get("acts_by_time")
    if abt:
        ks = [int(x) for x in abt if int(x) <= t]
        if ks:
            acts = abt[str(max(ks))]
    limit = menu.get("max_consults")
    if limit is not None and k >= limit:
        return []
    win = (per_agent or {}).get("active", [menu.get("active_from", 0), menu.get("active_until", 10 ** 9)])
    if t < win[0] or t > win[1]:
        return []
    out = []
    n_items = (per_agent or {}).get("max_orders", menu.get("max_orders", 1))
    mobt = menu.get("max_orders_by_time")
    if mobt is not None and str(t) in mobt:
        n_items = mobt[str(t)]
    for j in range(n_items):
        tag = f"a{aid}k{k}j{j}"
        act = acts[g.choice(f"{tag}_act", len(acts))]
        if act == "none":
            break
        accessible = [m for m in markets if agent.is_market_accessible(m.market_id)]
        mbt = menu.get("market_by_time")
        if mbt is not None and str(t) in mbt:
            m = accessible[mbt[str(t)]]
        else:
            m = accessible[g.choice(f"{tag}_mkt", len(accessible))] if len(accessible) > 1 else accessible[0]
        if act == "cancel":
            mine = ctx.own_orders.get(aid, [])
            if not mine:
                break
            o = mine[g.choice(f"{tag}_which", len(mine))]
            how = menu.get("cancel_objects", "fresh")
            if how == "stamped":          # a request object prepared earlier: it already carries a time stamp
                c = Cancel(order=o, placed_at=0)
            elif how == "reused":         # the same request object handed in again
                c = ctx.cancel_objs.setdefault(id(o), Cancel(order=o))
            else:
                c = Cancel(order=o)
            out.append(c)
            continue
        side = (per_agent or {}).get("side", menu.get("side"))
        sbt = (per_agent or {}).get("side_by_time")
        if sbt:
            side = sbt.get(str(t), side)
        if side is None:
            is_buy = g.boolean(f"{tag}_buy")
        else:
            is_buy = side == "B"
        ttls = menu.get("ttl", [None])
        ttl = ttls[g.choice(f"{tag}_ttl", len(ttls))] if len(ttls) > 1 else ttls[0]
        if ttl == "sym":
            ttl = g.int(f"{tag}_ttlv", 1, menu.get("ttl_hi", 3))
        if "vol_fixed" in (per_agent or {}):
            v = per_agent["vol_fixed"]
        elif "vol_hi" in (per_agent or {}):
            v = g.int(f"{tag}_v", 1, per_agent["vol_hi"])
        else:
            v = menu["vol_fixed"] if "vol_fixed" in menu else g.int(f"{tag}_v", 1, menu.get("vol_hi", VOL_HI))
        if act == "market":
            o = Order(agent_id=aid, market_id=m.market_id, is_buy=is_buy, kind=MARKET_ORDER, volume=v, ttl=ttl)
        else:
            pbt = menu.get("price_by_time")
            if pbt is not None and pbt.get(str(t), pbt.get("default")) != "sym":
                # other steps of this run use solver-chosen prices: keep the role "price" proxied throughout
                p = g.const(pbt.get(str(t), pbt.get("default")))
            elif "price_rel" in menu:
                rel = (per_agent or {}).get("price_rel", menu["price_rel"])
                p = g.const(m.get_market_price() + (-rel if is_buy else rel))
            elif "price_fixed" in menu:
                p = menu["price_fixed"]
            elif "price_set" in menu:
                # plain python numbers (no proxies anywhere in the run): code that converts or type-checks its
                # numbers stays decidable; the solver picks which one
                p = menu["price_set"][g.choice(f"{tag}_pc", len(menu["price_set"]))]
            else:
                p = g.int(f"{tag}_p", menu.get("price_lo", 1), menu.get("price_hi", PRICE_HI))
            if menu.get("real_prices"):
                p = g.real(f"{tag}_pr", menu.get("price_lo", 1), menu.get("price_hi", PRICE_HI))
            o = Order(agent_id=aid, market_id=m.market_id, is_buy=is_buy, kind=LIMIT_ORDER, volume=v,
                      price=p, ttl=ttl)
        ctx.own_orders.setdefault(aid, []).append(o)
        ctx.snap[id(o)] = {"is_buy": o.is_buy, "kind": o.kind, "price": o.price, "volume": o.volume,
                           "ttl": o.ttl, "market_id": o.market_id, "agent_id": aid, "t": t}
        out.append(o)
    ctx.emit("decided", agent, list(out))
    return out


class ScriptedAgent(Agent):
    def submit_orders(self, markets):
        return _decide(self, markets)

    def submitted_order(self, log):
        RUN.emit("submitted", self, log)

    def executed_order(self, log):
        RUN.emit("executed", self, log)

    def canceled_order(self, log):
        RUN.emit("canceled", self, log)


class ScriptedHFT(HighFrequencyAgent):
    def submit_orders(self, markets):
        return _decide(self, markets)

    def submitted_order(self, log):
        RUN.emit("submitted", self, log)

    def executed_order(self, log):
        RUN.emit("executed", self, log)

    def canceled_order(self, log):
        RUN.emit("canceled", self, log)


class LateBoundAgent(Agent):
    """user agent whose call-backs are chosen in setup() and bound on the instance (a handler picked from the
    settings); the class itself only has Agent's defaults."""

    def submit_orders(self, markets):
        return _decide(self, markets)

    def setup(self, settings, accessible_markets_ids, *args, **kwargs):
        super().setup(settings, accessible_markets_ids, *args, **kwargs)
        self.submitted_order = lambda log: RUN.emit("submitted", self, log)
        self.executed_order = lambda log: RUN.emit("executed", self, log)
        self.canceled_order = lambda log: RUN.emit("canceled", self, log)


class StreamLogger(RecLogger):
    """RecLogger that also reports every delivery to the run context (online oracles)."""

    def write(self, log):
        super().write(log)
        RUN.emit("log-write", None, log)

    def write_and_direct_process(self, log):
        RUN.emit("log-direct", None, log)
        super().write_and_direct_process(log)

    def process(self, logs):
        for lg in logs:
            RUN.emit("log-process", None, lg)
        super().process(logs)


def session(name, steps, placement=True, execution=True, **kw):
    d = {"sessionName": name, "iterationSteps": steps, "withOrderPlacement": placement,
         "withOrderExecution": execution, "withPrint": False}
    d.update(kw)
    return d


def base_settings(n_agents=2, n_hft=0, sessions=None, markets=None, cash=10000, assets=50, extra=None):
    """a minimal configuration: plain markets (zero volatility), scripted agents."""
    markets = markets or {"M": {"class": "Market", "tickSize": 1, "marketPrice": 300}}
    st = {"simulation": {"markets": list(markets), "agents": [], "sessions": sessions or [session(0, 2)]}}
    st.update(copy.deepcopy(markets))
    if n_agents:
        st["simulation"]["agents"].append("A")
        st["A"] = {"class": "ScriptedAgent", "numAgents": n_agents, "markets": list(markets),
                   "assetVolume": assets, "cashAmount": cash}
    if n_hft:
        st["simulation"]["agents"].append("H")
        st["H"] = {"class": "ScriptedHFT", "numAgents": n_hft, "markets": list(markets),
                   "assetVolume": assets, "cashAmount": cash}
    if extra:
        st.update(copy.deepcopy(extra))
    return st


def make_run(g, settings, menu, classes=(), logger_cls=StreamLogger, on_event=None):
    """build the real runner and run the real _setup(); returns the context (call ctx.runner._run())."""
    global RUN
    ctx = RunCtx(g, menu)
    ctx.on_event = on_event
    RUN = ctx
    ctx.logger = logger_cls() if logger_cls is not None else None      # None: a run without a logger
    ctx.settings_in = settings
    prng = SymRandom(g, "rn")
    prng.on_draw = lambda kind, val: ctx.emit("draw:" + kind, None, val)
    if menu.get("reduce_inert", True):
        prng.inert = is_inert
    r = SequentialRunner(settings=settings, prng=prng, logger=ctx.logger)
    for c in (ScriptedAgent, ScriptedHFT, LateBoundAgent, ProbeAll) + tuple(classes):
        r.class_register(c)
    ctx.runner = r
    r._setup()
    ctx.sim = r.simulator
    return ctx


def holdings(sim):
    return {a.agent_id: (a.cash_amount, dict(a.asset_volumes)) for a in sim.agents}


class ProbeAll(EventABC):
    """recording event: hooks every occasion at all times and reports to the run context."""

    def hook_registration(self):
        hooks = []
        for typ, before in (("order", True), ("order", False), ("cancel", True), ("cancel", False),
                            ("execution", False), ("session", True), ("session", False),
                            ("market", True), ("market", False)):
            hooks.append(EventHook(event=self, hook_type=typ, is_before=before))
        return hooks

    def hooked_before_order(self, simulator, order):
        RUN.emit("hook:order-before", None, order)

    def hooked_after_order(self, simulator, order_log):
        RUN.emit("hook:order-after", None, order_log)

    def hooked_before_cancel(self, simulator, cancel):
        RUN.emit("hook:cancel-before", None, cancel)

    def hooked_after_cancel(self, simulator, cancel_log):
        RUN.emit("hook:cancel-after", None, cancel_log)

    def hooked_after_execution(self, simulator, execution_log):
        RUN.emit("hook:execution-after", None, execution_log)

    def hooked_before_session(self, simulator, session):
        RUN.emit("hook:session-before", None, session)

    def hooked_after_session(self, simulator, session):
        RUN.emit("hook:session-after", None, session)

    def hooked_before_step_for_market(self, simulator, market):
        RUN.emit("hook:market-before", None, market)

    def hooked_after_step_for_market(self, simulator, market):
        RUN.emit("hook:market-after", None, market)

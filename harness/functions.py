"""Function-level harnesses: C19 (tick rounding), C17 (index values)."""
import fractions
import itertools
import math
import random

from pams.index_market import IndexMarket
from pams.logs import ExecutionLog, MarketStepBeginLog
from pams.market import Market
from pams.order import LIMIT_ORDER, MARKET_ORDER, Order

from sx import sand, sor, snot, ite, is_sym, aeq
from sx.driver import Harness
from . import rn
from .common import BareSim, RecLogger, mk_market, new_order, tick

F = fractions.Fraction


def _is_multiple(g, q, t):
    """q is an integer multiple of t (non-forking)."""
    k = math.floor(q / t)
    return k * t == q


class TickRounding(Harness):
    cvc5_recheck = True      # thorough tier: obligations re-discharged with cvc5
    name = "TickRounding"
    title = "real Market._add_order on an arbitrary positive price: rounded onto the grid, never more aggressive"
    what_symbolic = "the submitted price (any positive real up to 1e9); tick size from a stated set; both sides"
    nontrivial_event = "the price was off the grid and was moved"
    ticks = [1, F(1, 2), F(1, 4), F(1, 10), F(1, 100), F(1, 100000), F(7, 4), 3, 0.1, 0.01, 1e-05, 2.5, F(3, 4), 0.375, F(2, 5)]
    bounds = {"quick": "tick in {1, 1/2, 1/4, 1/10, 1/100, 1e-5, 7/4, 3, 3/4, 2/5 (exact rationals), and the doubles 0.1, 0.01, "
                       "1e-05, 2.5, 0.375 taken at their exact binary value}; price any real in (0, 1e9]; buy and sell (the side as "
                       "a bool, and for two ticks as an int or a numpy.bool_)",
              "thorough": "adds the ticks 1/3, 2/7, 5, 10, 1/3000, 250 and the doubles 0.05, 0.2, 0.001, 0.125, 12.5, 1e-07"}
    reach = ("nontrivial", "on-grid", "marketable-on-arrival")
    stubs = ("pams.market.math -> the same functions with their exact-real definitions when applied to proxies "
             "(floor, ceil, trunc, fabs, isclose); plain numbers go to the real module",)
    assumptions = ("exact real arithmetic: the statement's exact clause ('exactly so whenever tick and price are "
                   "exactly representable') is what is decided; rounding error of the float quotient is outside",)
    outside = ("floating-point error of price / tick for ticks that are not binary fractions", "non-positive prices")
    agreement_runs = 24

    more_ticks = [F(1, 3), F(2, 7), 5, 10, 0.05, 0.2, 0.001, 0.125, 12.5, 1e-07, F(1, 3000), 250]

    def cases(self, tier):
        n = len(self.ticks) + (len(self.more_ticks) if tier == "thorough" else 0)
        out = [{"tick": i, "is_buy": b} for i in range(n) for b in (True, False)]
        # the side given by a truthy / falsy value that is not the bool singleton (an int, a numpy.bool_ as
        # produced by a numpy comparison)
        out += [{"tick": i, "is_buy": b, "flag": f} for i in (0, 3) for b in (True, False) for f in ("int", "numpy")]
        return out

    def run(self, g, case):
        t = (self.ticks + self.more_ticks)[case["tick"]]
        if isinstance(t, float):
            t = F(t)      # the double's exact binary value (what "lifting by exact value" means)
        lg = RecLogger()
        m = mk_market(tick=t, price=300, logger=lg)
        p = g.real("p", 0, 10 ** 9, lo_strict=True)
        side = case["is_buy"]
        if case.get("flag") == "int":
            side = int(side)
        elif case.get("flag") == "numpy":
            import numpy
            side = numpy.bool_(side)
        o = Order(agent_id=0, market_id=0, is_buy=side, kind=LIMIT_ORDER, volume=1, price=p)
        import pams.market as PM
        from .mathstub import ProxyMath
        old_math = PM.math
        PM.math = ProxyMath() if g.symbolic else old_math     # exact-real definitions of math.* for proxies
        try:
            log = m._add_order(o)
        finally:
            PM.math = old_math
        q = log.price
        g.observe(q)
        g.require(o.price == q, "C19.log-price!=order-price")
        g.require(_is_multiple(g, q, t), "C19.accepted-price-off-grid", "accepted price is not a multiple of the tick")
        on_grid = _is_multiple(g, p, t)
        g.require(sor(snot(on_grid), q == p), "C19.on-grid-price-changed")
        if case["is_buy"]:
            g.require(q <= p, "C19.more-aggressive", "buy price rounded upwards")
            g.require(p - q < t, "C19.moved-by-a-tick-or-more")
        else:
            g.require(q >= p, "C19.more-aggressive", "sell price rounded downwards")
            g.require(q - p < t, "C19.moved-by-a-tick-or-more")
        if bool(on_grid):
            g.note("on-grid")
        else:
            g.note("nontrivial")
        # the book and best quote show the accepted price
        best = m.get_best_buy_price() if case["is_buy"] else m.get_best_sell_price()
        g.require(best == q, "C19.book-price!=accepted-price")
        # the same submitted price on the other side of the same market rounds the other way
        o2 = Order(agent_id=1, market_id=0, is_buy=not case["is_buy"], kind=LIMIT_ORDER, volume=1, price=p)
        PM.math = ProxyMath() if g.symbolic else old_math
        try:
            q2 = m._add_order(o2).price
        finally:
            PM.math = old_math
        g.require(_is_multiple(g, q2, t), "C19.accepted-price-off-grid")
        g.require(sor(snot(on_grid), q2 == p), "C19.on-grid-price-changed")
        if case["is_buy"]:
            g.require(sand(q2 >= p, q2 - p < t), "C19.more-aggressive", "second order (sell at the same price) rounded the wrong way")
        else:
            g.require(sand(q2 <= p, p - q2 < t), "C19.more-aggressive", "second order (buy at the same price) rounded the wrong way")
        # a running market in which the order is marketable on arrival (it crosses a resting order of another agent):
        # its own limit is put on the grid all the same (a remainder would rest at it)
        m3 = mk_market(tick=t, price=300, logger=RecLogger(), running=True)
        rest_price = t if case["is_buy"] else t * 10 ** 15
        m3._add_order(Order(agent_id=5, market_id=0, is_buy=not case["is_buy"], kind=LIMIT_ORDER, volume=10, price=rest_price))
        if case["is_buy"]:
            g.assume(p >= t)
        o3 = Order(agent_id=6, market_id=0, is_buy=side, kind=LIMIT_ORDER, volume=3, price=p)
        PM.math = ProxyMath() if g.symbolic else old_math
        try:
            q3 = m3._add_order(o3).price
        finally:
            PM.math = old_math
        g.note("marketable-on-arrival")
        g.require(_is_multiple(g, q3, t), "C19.accepted-price-off-grid", "marketable order accepted at a price off the grid")
        g.require(sor(snot(on_grid), q3 == p), "C19.on-grid-price-changed")
        if case["is_buy"]:
            g.require(sand(q3 <= p, p - q3 < t), "C19.more-aggressive")
        else:
            g.require(sand(q3 >= p, q3 - p < t), "C19.more-aggressive")


# =================================================================================================
class ScaledMarket(Market):
    """user-written market: quotes its prices in another currency (factor 5/4)."""

    def get_market_price(self, time=None):
        return super().get_market_price(time) * 1.25

    def get_fundamental_price(self, time=None):
        return super().get_fundamental_price(time) * 1.25


class IndexValues(Harness):
    cvc5_recheck = True      # thorough tier: obligations re-discharged with cvc5
    name = "IndexValues"
    title = "real IndexMarket index computations over symbolic component prices"
    what_symbolic = "component market prices (set by real trades) and fundamental prices (any positive reals); shares from concrete unequal sets"
    nontrivial_event = "every path computes the index from >= 2 components with unequal shares"
    share_sets = [[100, 250], [1, 3, 7], [5, 5, 5], [1000, 1]]
    bounds = {"quick": "2-3 components, outstanding shares from {[100,250],[1,3,7],[5,5,5],[1000,1]} (two cases assign other "
                       "shares to the components after the index was set up), prices any reals in (0,1e6], 2 time steps",
              "thorough": "adds symbolic positive integer shares for 2 components (nonlinear)"}
    reach = ("nontrivial",)
    agreement_runs = 8

    def cases(self, tier):
        out = [{"shares": i, "sym_shares": False} for i in range(len(self.share_sets))]
        out.append({"shares": 1, "sym_shares": False, "subclass": True})
        out += [{"neg": "duplicate"}, {"neg": "no-shares"}, {"shares": 1, "sym_shares": False, "rejected_batch": True},
                {"shares": 1, "sym_shares": False, "registered_before_setup": True},
                {"shares": 1, "sym_shares": False, "nested": True}]
        # outstanding shares of a component assigned (public attribute) after the index was set up
        out.append({"shares": 0, "sym_shares": False, "reassign": [250, 100]})
        out.append({"shares": 1, "sym_shares": False, "reassign": [2, 3, 7]})
        if tier == "thorough":
            out.append({"shares": 0, "sym_shares": True})
        return out

    def _world(self, g, shares, subclass=False):
        from pams.simulator import Simulator
        sim = Simulator(prng=random.Random(0))
        comps = []
        for i, s in enumerate(shares):
            cls = ScaledMarket if (subclass and i == len(shares) - 1) else Market
            m = cls(market_id=i, prng=random.Random(0), simulator=sim, name=f"C{i}")
            st = {"tickSize": 1, "marketPrice": 100 * (i + 1)}
            if s is not None:
                st["outstandingShares"] = s
            m.setup(st)
            sim._add_market(m)
            comps.append(m)
        idx = IndexMarket(market_id=len(shares), prng=random.Random(0), simulator=sim, name="IDX")
        return sim, comps, idx

    def run(self, g, case):
        if case.get("neg") == "duplicate":
            sim, comps, idx = self._world(g, [10, 20])
            try:
                idx.setup({"tickSize": 1, "marketPrice": 100, "markets": ["C0", "C1", "C0"]})
                g.require(False, "C17.duplicate-component-accepted")
            except ValueError:
                g.note("nontrivial")
            return
        if case.get("neg") == "no-shares":
            sim, comps, idx = self._world(g, [10, None])
            try:
                idx.setup({"tickSize": 1, "marketPrice": 100, "markets": ["C0", "C1"]})
                g.require(False, "C17.component-without-shares-accepted")
            except (ValueError, AssertionError):
                g.note("nontrivial")
            return
        shares = list(self.share_sets[case["shares"]])
        sim, comps, idx = self._world(g, shares, subclass=case.get("subclass", False))
        if case["sym_shares"]:
            shares = [g.int(f"s{i}", 1, 10 ** 6) for i in range(len(shares))]
            for m, s in zip(comps, shares):
                m.outstanding_shares = s     # setup() insists on a python int
        if case.get("registered_before_setup"):
            # a component registered programmatically before the settings are applied stays a component
            idx._add_market(comps[2])
            idx.setup({"tickSize": 1, "marketPrice": 100, "markets": [m.name for m in comps[:2]]})
            comps = [comps[2], comps[0], comps[1]]
            shares = [shares[2], shares[0], shares[1]]
            g.require(len(idx.get_components()) == 3, "C17.component-dropped",
                      "a component accepted before setup() is no longer a component")
        elif case.get("nested"):
            # the last component is itself an index market (over the first two) with a market price of its own
            inner = IndexMarket(market_id=len(shares) + 1, prng=random.Random(0), simulator=sim, name="INNER")
            inner.setup({"tickSize": 1, "marketPrice": 500, "outstandingShares": shares[2],
                         "markets": [m.name for m in comps[:2]]})
            sim._add_market(inner)
            comps = [comps[0], comps[1], inner]
            idx.setup({"tickSize": 1, "marketPrice": 100, "markets": [m.name for m in comps]})
        elif case.get("rejected_batch"):
            # the index starts with the first two components; a list naming an existing component is refused and
            # leaves the index as it was; then the third one is added
            idx.setup({"tickSize": 1, "marketPrice": 100, "markets": [m.name for m in comps[:2]]})
            try:
                idx._add_markets([comps[0], comps[2]])
                g.require(False, "C17.duplicate-component-accepted")
            except ValueError:
                pass
            g.require(len(idx.get_components()) == 2 and idx.get_components()[0] is comps[0] and
                      idx.get_components()[1] is comps[1], "C17.refused-batch-changed-the-components",
                      "a refused list of further components changed the set of components")
            idx._add_markets([comps[2]])
        else:
            idx.setup({"tickSize": 1, "marketPrice": 100, "markets": [m.name for m in comps]})
        sim._add_market(idx)
        if case.get("reassign"):
            shares = list(case["reassign"])
            for m, s_ in zip(comps, shares):
                m.outstanding_shares = s_
        g.note("nontrivial")
        hist = []
        for t in range(2):
            fs = [g.real(f"f{i}_{t}", 0, 10 ** 6, lo_strict=True) for i in range(len(comps))]
            for m, f in zip(comps, fs):
                m._update_time(next_fundamental_price=f)
                m._is_running = True
            idx._update_time(next_fundamental_price=idx.compute_fundamental_index(time=idx.get_time() + 1))
            ps = []
            cur = [m.get_market_price() for m in comps]
            for i, m in enumerate(comps):
                # a real trade at a symbolic price sets the component's market price
                p = g.int(f"p{i}_{t}", 1, 10 ** 6)
                m._add_order(Order(agent_id=0, market_id=m.market_id, is_buy=True, kind=LIMIT_ORDER, volume=1, price=p))
                m._add_order(Order(agent_id=1, market_id=m.market_id, is_buy=False, kind=LIMIT_ORDER, volume=1, price=p))
                m._execution()
                ps.append(m.get_market_price())
                g.require(Market.get_market_price(m) == p, "C17.harness:trade-sets-price")
                # the index follows every price change inside the step
                cur[i] = m.get_market_price()
                g.require(aeq(idx.get_index() * sum(shares), sum(x * s_ for x, s_ in zip(cur, shares))),
                          "C17.index!=weighted-average-of-market-prices", f"after the trade on component {i} in step {t}")
            hist.append(([m.get_fundamental_price() for m in comps], ps))
            tot = sum(shares)
            for tt, (fs_, ps_) in enumerate(hist):
                wp = sum(p * s for p, s in zip(ps_, shares))
                wf = sum(f * s for f, s in zip(fs_, shares))
                for name, val in (("get_index", idx.get_index(tt)), ("get_market_index", idx.get_market_index(tt)),
                                  ("compute_market_index", idx.compute_market_index(tt))):
                    g.require(aeq(val * tot, wp), "C17.index!=weighted-average-of-market-prices", f"{name}({tt})")
                    g.observe(val)
                g.require(aeq(idx.compute_fundamental_index(tt) * tot, wf), "C17.fundamental-index!=weighted-average")
                g.require(aeq(idx.get_fundamental_index(tt) * tot, wf), "C17.recorded-fundamental!=weighted-average",
                          f"fundamental recorded by the index for time {tt}")
            # default argument = current time
            g.require(idx.get_index() == idx.get_index(idx.get_time()), "C17.default-time")
            try:
                idx.get_index(idx.get_time() + 1)
                g.require(False, "C17.future-index-served")
            except AssertionError:
                pass


class IndexInRun(Harness):
    name = "IndexInRun"
    title = "index market in a real run: recorded fundamental = weighted average of the components' new-time values"
    what_symbolic = "the rate of a fundamental shock on a component; declaration order of the index is the case split"
    nontrivial_event = "a shocked component value entered the index"
    assumptions = (rn.REDUCTION_NOTE,
                   "index-first cases: the simulator's market list is reordered after the real _setup() (a "
                   "configuration listing the index before its components is refused by IndexMarket.setup)",)
    bounds = {"quick": "2 components (shares 100/300) + index placed last or first in the simulator's market list, 4 steps, shock on "
                       "a component at t=1..2; two index markets over overlapping component sets of 3 components (shares 100/300/50)",
              "thorough": "same with 3 components"}
    reach = ("nontrivial",)
    agreement_runs = 4

    def cases(self, tier):
        out = []
        for first in (True, False):
            for n in ((2,) if tier == "quick" else (2, 3)):
                out.append({"index_first": first, "n": n})
        # two index markets over different (overlapping) sets of components
        out.append({"index_first": False, "n": 3, "two": True})
        out.append({"index_first": True, "n": 3, "two": True})
        # the index market's id also has an entry of its own in the fundamentals generator (a runner that registers
        # every configured market): the entry is ignored, the index records the average of its components
        out.append({"index_first": False, "n": 2, "registered": True})
        return out

    def run(self, g, case):
        rate = g.real("rate", -1, 5, lo_strict=True)
        names = [f"C{i}" for i in range(case["n"])]
        shares = [100, 300, 50][:case["n"]]
        markets = {}
        for i, nme in enumerate(names):
            markets[nme] = {"class": "Market", "tickSize": 1, "marketPrice": 200 + 100 * i, "outstandingShares": shares[i]}
        members = {"IDX": names}
        if case.get("two"):
            members = {"IDX": names[:2], "IDX2": names[1:]}
        for iname, comp in members.items():
            markets[iname] = {"class": "IndexMarket", "tickSize": 1, "marketPrice": 300, "markets": comp}
        sessions = [rn.session(0, 4, False, False, events=["PROBE", "SHOCK"])]
        st = rn.base_settings(n_agents=1, sessions=sessions, markets=markets,
                              extra={"PROBE": {"class": "ProbeAll"},
                                     "SHOCK": {"class": "FundamentalPriceShock", "target": "C0", "triggerTime": 1,
                                               "priceChangeRate": rate, "shockTimeLength": 2}})
        st["A"]["markets"] = names
        seen = {}

        def on_event(kind, agent, p):
            if kind == "hook:market-before":
                seen[p.name, p.get_time()] = p.get_fundamental_price()
        ctx = rn.make_run(g, st, {"acts": ["none"]}, on_event=on_event)
        sim = ctx.sim
        if case.get("registered"):
            sim.fundamentals.add_market(market_id=sim.name2market["IDX"].market_id, initial=123.0, drift=0.01, volatility=0.0)
        if case["index_first"]:
            # the configuration format only accepts an index declared after its components (its setup reads
            # their outstanding shares); to exercise "index markets are stepped after their components"
            # the index is moved to the front of the simulator's market list after the real _setup()
            sim.markets.insert(0, sim.markets.pop(sim.markets.index(sim.name2market["IDX"])))
        ctx.runner._run()
        for iname, comp in members.items():
            idx = sim.name2market[iname]
            sh = [shares[names.index(n)] for n in comp]
            tot = sum(sh)
            for t in range(4):
                w = sum(seen[n, t] * s for n, s in zip(comp, sh))
                g.require(aeq(seen[iname, t] * tot, w), "C17.recorded-fundamental!=weighted-average",
                          f"fundamental recorded by {iname} for t={t} is not the weighted average of its components' values for t={t}")
                if t >= 2:
                    g.note("nontrivial")
                g.require(idx.get_fundamental_index(t) == seen[iname, t], "C17.index-history-changed")
                wp = sum(sim.name2market[n].get_market_price(t) * s for n, s in zip(comp, sh))
                g.require(aeq(idx.get_index(t) * tot, wp), "C17.index!=weighted-average-of-market-prices")


from pams.events import EventABC as _EventABC, EventHook as _EventHook


class FlipSide(_EventABC):
    """user event rewriting the side of every pending order (a before-order hook may alter the order)."""

    def hook_registration(self):
        return [_EventHook(event=self, hook_type="order", is_before=True)]

    def hooked_before_order(self, simulator, order):
        order.is_buy = not order.is_buy


class TickRoundingInRun(Harness):
    name = "TickRoundingInRun"
    title = "orders sent through the real SequentialRunner to markets with different tick sizes: each on its own market's grid"
    what_symbolic = "the submitted prices (reals in (0,100]), sides, which market each item of a submission goes to, activation order"
    nontrivial_event = "an off-grid price was moved"
    bounds = {"quick": "2 markets with ticks 1 and 1/4 (and 1/4 and 1), one step without matching, one agent handing in "
                       "2 limit orders in one consultation; one case with a user event rewriting the side before acceptance",
              "thorough": "same"}
    reach = ("nontrivial", "two-markets-in-one-submission")
    stubs = TickRounding.stubs
    assumptions = TickRounding.assumptions + (rn.REDUCTION_NOTE,)
    agreement_runs = 4

    def cases(self, tier):
        return [{"ticks": [1, 0.25]}, {"ticks": [0.25, 1]}, {"ticks": [1, 0.25], "flip": True}]

    def run(self, g, case):
        markets = {f"M{i}": {"class": "Market", "tickSize": t, "marketPrice": 50} for i, t in enumerate(case["ticks"])}
        sess = rn.session(0, 1, True, False, maxNormalOrders=1)
        extra = None
        if case.get("flip"):
            sess["events"] = ["FLIP"]
            extra = {"FLIP": {"class": "FlipSide"}}
        st = rn.base_settings(n_agents=1, sessions=[sess], markets=markets, extra=extra)
        menu = {"acts": ["limit"], "vol_fixed": 1, "max_orders": 2, "real_prices": True, "price_lo": 0, "price_hi": 100}
        import pams.market as PM
        from .mathstub import ProxyMath
        old_math = PM.math
        PM.math = ProxyMath() if g.symbolic else old_math
        try:
            ctx = rn.make_run(g, st, menu, classes=(FlipSide,))
            ctx.runner._run()
        finally:
            PM.math = old_math
        sim = ctx.sim
        per_batch = {}
        for kind, aid, lg in ctx.events:
            if kind != "submitted":
                continue
            o = [x for x in ctx.own_orders[aid] if x.order_id is not None and x.market_id == lg.market_id
                 and bool(x.order_id == lg.order_id)][0]
            ask = ctx.snap[id(o)]
            per_batch.setdefault((aid, lg.time), set()).add(lg.market_id)
            t = F(sim.id2market[lg.market_id].tick_size)
            p, q = ask["price"], lg.price
            g.require(_is_multiple(g, q, t), "C19.accepted-price-off-grid",
                      f"accepted price is not a multiple of the tick of market {lg.market_id}")
            on_grid = _is_multiple(g, p, t)
            g.require(sor(snot(on_grid), q == p), "C19.on-grid-price-changed")
            if lg.is_buy:         # the side the order is accepted on (an event may have rewritten it)
                g.require(sand(q <= p, p - q < t), "C19.more-aggressive", "buy price rounded upwards or by a tick or more")
            else:
                g.require(sand(q >= p, q - p < t), "C19.more-aggressive", "sell price rounded downwards or by a tick or more")
            if not bool(on_grid):
                g.note("nontrivial")
        if any(len(v) == 2 for v in per_batch.values()):
            g.note("two-markets-in-one-submission")


class C19_TickRounding(TickRounding):
    pass


class C19_TickRoundingInRun(TickRoundingInRun):
    pass


class C17_IndexValues(IndexValues):
    pass


class C17_IndexInRun(IndexInRun):
    pass

import sys, random, warnings, time, types
sys.path.insert(0, "/tmp/probe")
import z3
from sx import Engine, SReal, SInt, SNum, SBool
warnings.simplefilter("ignore")
import pams.agents.fcn_agent as FA
from pams.agents import FCNAgent
from pams.market import Market
class _Sim: pass
LOG = z3.Function("LOG", z3.RealSort(), z3.RealSort()); EXP = z3.Function("EXP", z3.RealSort(), z3.RealSort())
def mkmath(g, calls):
    m = types.SimpleNamespace()
    def toR(x): return x.e if isinstance(x, SNum) else z3.RealVal(str(x))
    def log(x):
        xe = toR(x)
        if not g.branch(xe > 0): raise ValueError("math domain error")
        y = LOG(xe); g.solver.add(z3.And(z3.Implies(xe > 1, y > 0), z3.Implies(xe == 1, y == 0), z3.Implies(xe < 1, y < 0)))
        calls.append(("log", xe, y)); return SReal(g, y)
    def exp(x):
        xe = toR(x); y = EXP(xe)
        g.solver.add(z3.And(y > 0, z3.Implies(xe > 0, y > 1), z3.Implies(xe == 0, y == 1), z3.Implies(xe < 0, y < 1)))
        calls.append(("exp", xe, y)); return SReal(g, y)
    m.log, m.exp = log, exp
    m.isnan = lambda x: False; m.isinf = lambda x: False
    return m
def h(g):
    calls = []
    FA.math = mkmath(g, calls)
    m = Market(market_id=0, prng=random.Random(0), simulator=_Sim(), name="m")
    m.setup({"tickSize": 1, "marketPrice": 300}); 
    for _ in range(3): m._update_time(next_fundamental_price=300.0)
    # symbolic state: market prices p0..p2, fundamental
    ps = [g.fresh_real(f"p{i}") for i in range(3)]; f = g.fresh_real("f")
    for p in ps + [f]: g.assume(p > 0)
    for i, p in enumerate(ps): m._market_prices[i] = p
    m._fundamental_prices[2] = f
    class PR(random.Random):
        def gauss(self, mu=0.0, sigma=1.0): return g.fresh_real("eps")
    a = FCNAgent(agent_id=7, prng=PR(), simulator=_Sim(), name="a")
    a.asset_volumes = {0: 10}
    wF, wC, wN = g.fresh_real("wF"), g.fresh_real("wC"), g.fresh_real("wN")
    g.assume(wF >= 0); g.assume(wC >= 0); g.assume(wN >= 0); g.assume(wF + wC + wN > 0)
    a.fundamental_weight, a.chart_weight, a.noise_weight = wF, wC, wN
    a.noise_scale = g.fresh_real("ns"); a.time_window_size = 2; a.mean_reversion_time = 3
    a.order_margin = g.fresh_real("mg"); g.assume(a.order_margin >= 0); g.assume(a.order_margin <= 1)
    a.margin_type = FA.MARGIN_FIXED
    orders = a.submit_orders_by_market(m)
    # oracle
    logF = [c for c in calls if c[0] == "log"][0]; logC = [c for c in calls if c[0] == "log"][1]; ex = [c for c in calls if c[0] == "exp"][0]
    eps = g.vars["eps"]
    F = z3.RealVal(repr(1.0/3)) * logF[2]; C = z3.RealVal(repr(1.0/2)) * logC[2]; N = a.noise_scale.e * eps
    spec = 2 * ((wF.e * F + wC.e * C + wN.e * N) / (wF.e + wC.e + wN.e))
    assert g.branch(logF[1] == f.e / ps[2].e); assert g.branch(logC[1] == ps[2].e / ps[0].e)
    assert g.branch(ex[1] == spec), "exp argument"
    assert len(orders) <= 1
    if len(orders) == 1:
        o = orders[0]
        if o.is_buy:
            assert g.branch(spec > 0); assert g.branch(o.price.e == ps[2].e * ex[2] * (1 - a.order_margin.e))
        else:
            assert g.branch(spec < 0); assert g.branch(o.price.e == ps[2].e * ex[2] * (1 + a.order_margin.e))
    else:
        assert g.branch(spec == 0)
g = Engine(); t0 = time.time(); res = g.explore(h)
print(f"paths={g.paths} q={g.queries} solver_s={g.solver_time:.2f} wall={time.time()-t0:.2f}", "VIOL" if res else "ok")
import traceback
for e, m in res: traceback.print_exception(e)

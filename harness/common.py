"""Shared pieces of the harnesses: market driver (MK), recording logger, symbolic random source,
reference ranking of orders.  Everything here drives the real pams objects through their own
methods; nothing re-implements pams behaviour except the oracles, which transcribe property text."""
import random

from pams.logs import CancelLog, ExecutionLog, ExpirationLog, Logger, OrderLog
from pams.market import Market
from pams.order import LIMIT_ORDER, MARKET_ORDER, Cancel, Order

from sx import is_sym, sand, sor, ite

PRICE_HI = 10 ** 6
VOL_HI = 10 ** 4


class BareSim:
    """stand-in for the simulator when a market is driven alone (pams.Market only stores it)."""


class RecLogger(Logger):
    """records every record it is handed, with the call that delivered it."""

    def __init__(self):
        super().__init__()
        self.written = []      # (how, log) in call order: 'write' | 'bulk' | 'direct'
        self.processed = []    # logs in the order process() saw them

    def write(self, log):
        self.written.append(("write", log))
        super().write(log)

    def bulk_write(self, logs):
        for lg in logs:
            self.written.append(("bulk", lg))
        super().bulk_write(logs)

    def write_and_direct_process(self, log):
        self.written.append(("direct", log))
        super().write_and_direct_process(log)

    def bulk_write_and_direct_process(self, logs):
        for lg in logs:
            self.written.append(("direct", lg))
        super().bulk_write_and_direct_process(logs)

    def process(self, logs):
        self.processed.extend(logs)
        super().process(logs)

    # distinct records by identity, in first-seen order
    def distinct(self, cls=None):
        seen, out = set(), []
        for _, lg in self.written:
            if id(lg) in seen:
                continue
            seen.add(id(lg))
            if cls is None or isinstance(lg, cls):
                out.append(lg)
        return out


def mk_market(tick=1, price=300, logger=None, running=True, market_id=0, fundamental=None, cls=Market,
              sim=None, extra=None, chunk=None):
    """a real Market, set up through its own setup() and brought to time 0 like the runner does."""
    m = cls(market_id=market_id, prng=random.Random(0), simulator=sim or BareSim(), name=f"m{market_id}",
            logger=logger)
    st = {"tickSize": tick, "marketPrice": price}
    if extra:
        st.update(extra)
    m.setup(st)
    if chunk is not None:
        m.chunk_size = chunk      # public instance attribute: storage is extended every `chunk` steps
    m._update_time(next_fundamental_price=price if fundamental is None else fundamental)
    m._is_running = running
    return m


def tick(m, fundamental=None):
    m._update_time(next_fundamental_price=fundamental if fundamental is not None
                   else m.get_fundamental_price())


def new_order(g, tag, is_buy, market=False, ttl=None, agent_id=0, market_id=0, price_hi=PRICE_HI,
              vol_hi=VOL_HI, price=None, volume=None, price_lo=1):
    v = volume if volume is not None else g.int(f"v_{tag}", 1, vol_hi)
    if market:
        return Order(agent_id=agent_id, market_id=market_id, is_buy=is_buy, kind=MARKET_ORDER,
                     volume=v, ttl=ttl)
    p = price if price is not None else g.int(f"p_{tag}", price_lo, price_hi)
    return Order(agent_id=agent_id, market_id=market_id, is_buy=is_buy, kind=LIMIT_ORDER,
                 volume=v, price=p, ttl=ttl)


# ---- reference ranking, written from the text of C02 ---------------------------------------------
def ranks_before(a, b):
    """a, b: dicts with is_market, price, time, id (same side, key 'is_buy').  True iff a has higher
    priority than b: market orders first, then better price, then earlier time, then lower id."""
    if a["is_market"] and not b["is_market"]:
        return True
    if b["is_market"] and not a["is_market"]:
        return False
    if a["is_market"] and b["is_market"]:
        return sor(a["time"] < b["time"], sand(a["time"] == b["time"], a["id"] < b["id"]))
    better = (a["price"] > b["price"]) if a["is_buy"] else (a["price"] < b["price"])
    return sor(better, sand(a["price"] == b["price"],
                            sor(a["time"] < b["time"], sand(a["time"] == b["time"], a["id"] < b["id"]))))


class SymRandom(random.Random):
    """random.Random whose draws are solver variables: `sample` returns any permutation, `random`
    any real in [0,1), `randint` (only used by pams to seed child generators) a running counter."""

    def __init__(self, g, tag="r"):
        super().__init__(0)
        self.g = g
        self.tag = tag
        self.n = 0
        self.seeds = 0
        self.uniforms = []
        self.samples = []
        self.on_draw = None
        self.inert = None
        self.last_g_list = []
        self.last_weights = None
        self.last_choice = None

    def sample(self, population, k, *, counts=None):
        pop = list(population)
        out = []
        self.n += 1
        tail = []
        if self.inert is not None and k == len(pop):
            # symmetry reduction: scripted agents that are known to return [] now (outside their activity window)
            # have no effect wherever they stand; they are put last in a fixed order
            tail = [x for x in pop if self.inert(x)]
            pop = [x for x in pop if not self.inert(x)]
            k = len(pop)
        for j in range(k):
            c = self.g.choice(f"{self.tag}_perm{self.n}_{j}", len(pop))
            out.append(pop.pop(c))
        out += tail
        self.samples.append(list(out))
        if self.on_draw:
            self.on_draw("sample", list(out))
        return out

    def shuffle(self, x):
        x[:] = self.sample(x, len(x))

    def randint(self, a, b):
        self.seeds += 1
        return a + (self.seeds % (b - a + 1))

    def random(self):
        self.n += 1
        u = self.g.real(f"{self.tag}_u{self.n}", 0, 1, hi_strict=True)
        self.uniforms.append(u)
        if self.on_draw:
            self.on_draw("random", u)
        return u

    def gauss(self, mu=0.0, sigma=1.0):
        self.n += 1
        self.last_g = self.g.real(f"{self.tag}_g{self.n}")
        self.last_g_list.append(self.last_g)
        return mu + sigma * self.last_g

    def choices(self, population, weights=None, *, cum_weights=None, k=1):
        pop = list(population)
        self.n += 1
        c = self.g.choice(f"{self.tag}_choice{self.n}", len(pop))
        if weights is not None:
            w = weights[c]
            self.g.assume(w > 0)
            self.last_weights = list(weights)
        self.last_choice = c
        return [pop[c]]

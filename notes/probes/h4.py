import random, warnings, heapq, itertools, sys, time
sys.path.insert(0, "/tmp/probe")
from sx import Engine
from pams.market import Market
from pams.order import Order, LIMIT_ORDER, MARKET_ORDER
warnings.simplefilter("ignore")
class _Sim: pass
def mk_market(now):
    m = Market(market_id=0, prng=random.Random(0), simulator=_Sim(), name="m")
    m.setup({"tickSize": 1, "marketPrice": 10})
    m._update_time(next_fundamental_price=10)
    for _ in range(now): m._update_time(next_fundamental_price=10)
    m._is_running = True
    return m

def make_harness(kinds, ids, nb):
    n = len(kinds)
    def h(g):
        m = mk_market(3)
        orders = []
        for i in range(n):
            k = kinds[i]
            p = None if k else g.fresh_int(f"p{i}", 1, 1000)
            v = g.fresh_int(f"v{i}", 1, 100)
            t = g.fresh_int(f"t{i}", 0, 3)
            orders.append(Order(agent_id=0, market_id=0, is_buy=(i < nb), kind=(MARKET_ORDER if k else LIMIT_ORDER), volume=v, price=p, placed_at=t, order_id=ids[i]))
        for a in orders:
            for b in orders:
                if a.order_id < b.order_id:
                    g.assume(a.placed_at <= b.placed_at)
        byid = {o.order_id: (o, o.price, o.volume) for o in orders}
        m.buy_order_book.priority_queue = orders[:nb]
        m.sell_order_book.priority_queue = orders[nb:]
        heapq.heapify(m.buy_order_book.priority_queue)
        heapq.heapify(m.sell_order_book.priority_queue)
        m._next_order_id = n
        logs = m._execution()
        for lg in logs:
            bo = byid[lg.buy_order_id]; so = byid[lg.sell_order_id]
            if bo[1] is not None: assert lg.price <= bo[1]
            if so[1] is not None: assert lg.price >= so[1]
            assert lg.price == logs[0].price
        bb = m.buy_order_book.get_best_order(); bs = m.sell_order_book.get_best_order()
        if bb is not None and bs is not None and (bb.price is not None or bs.price is not None):
            assert bb.price is not None and bs.price is not None
            assert bb.price < bs.price
    return h

nb, ns = int(sys.argv[1]), int(sys.argv[2])
n = nb + ns
t0 = time.time(); tot_paths = tot_q = 0; st = 0.0; shapes = 0
for kinds in itertools.product([False, True], repeat=n):
    for ids in itertools.permutations(range(n)):
        # symmetry: ids increasing within each side
        if list(ids[:nb]) != sorted(ids[:nb]) or list(ids[nb:]) != sorted(ids[nb:]): continue
        g = Engine()
        res = g.explore(make_harness(kinds, ids, nb))
        shapes += 1; tot_paths += g.paths; tot_q += g.queries; st += g.solver_time
        if res:
            e, mdl = res[0]
            print("VIOLATION", kinds, ids, type(e), e, mdl); sys.exit(1)
print(f"shapes={shapes} paths={tot_paths} queries={tot_q} solver_s={st:.1f} wall={time.time()-t0:.1f}")

"""C06: one lock-step clock, no access to the future, recorded history never changes -- real runs."""
import itertools

from pams.events import EventABC, EventHook
from pams.logs import MarketStepBeginLog, MarketStepEndLog, SessionBeginLog, SessionEndLog

from sx import sand, sor, snot, is_sym
from sx.driver import Harness
from . import rn

SERIES = ["get_market_prices", "get_mid_prices", "get_last_executed_prices", "get_fundamental_prices",
          "get_executed_volumes", "get_executed_total_prices", "get_n_buy_orders", "get_n_sell_orders"]
SCALARS = ["get_market_price", "get_mid_price", "get_last_executed_price", "get_fundamental_price",
           "get_executed_volume", "get_executed_total_price", "get_n_buy_order", "get_n_sell_order", "get_vwap"]


class DriftChange(EventABC):
    """user event: changes the drift of market 0 'now' at one step (parameter change during a run)."""

    def hook_registration(self):
        return [EventHook(event=self, hook_type="market", is_before=True, time=[rn.RUN.menu["drift_at"]],
                          specific_instance=self.simulator.markets[0])]

    def hooked_before_step_for_market(self, simulator, market):
        simulator.fundamentals.change_drift(market_id=market.market_id, drift=0.01, time=market.get_time())
        rn.RUN.emit("drift-changed", None, market.get_time())


def _eq(a, b):
    if a is None or b is None:
        return a is None and b is None
    if isinstance(a, float) and a != a:
        return isinstance(b, float) and b != b
    return a == b


class ClockAndHistory(Harness):
    name = "ClockAndHistory"
    title = "real runs: lock-step clock, session spans, refused future queries, immutable recorded history"
    what_symbolic = ("order prices in [1,1000] (hence fills, mid and market prices), activation order, the shock rate, "
                     "the distance d in [1,1e6] of every future query")
    nontrivial_event = "a fill, a cancel or an expiry changed series values during the run"
    reach = ("nontrivial", "chunk-crossed", "fill", "cancel", "shock", "future-query-refused", "drift-changed", "mid-step-read")
    bounds = {
        "quick": "session layouts [[4]], [[2],[3]], [[1],[2],[1]], [[7]] steps; 1-2 markets (+ index market, also with trades on its component); storage and "
                 "generation chunks shrunk to 3 steps (public instance attributes); a buyer and a seller quoting in steps "
                 "0-2 at solver-chosen prices (ttl 1; the buyer cancels or re-quotes at t=1), a fundamental shock at t=1..2 and "
                 "a drift change at t=2",
        "thorough": "adds two markets with a solver-chosen market per order, and a concrete 205-step run across the real 100-step chunks",
    }
    assumptions = (rn.REDUCTION_NOTE,
                   "chunk sizes are shrunk through Market.chunk_size / Fundamentals._generate_chunk_size so that chunk "
                   "boundaries are crossed within a few steps (the thorough tier adds an unmodified 205-step run)",)
    outside = ("negative time indices (the statement speaks of times later than the current time)",)
    agreement_runs = 4
    max_decisions = 40000      # the 205-step run

    def cases(self, tier):
        out = []
        for layout in ([[4]], [[2], [3]], [[1], [2], [1]]):
            out.append({"layout": layout, "M": 1, "index": False, "agents": True, "chunk": 3})
        out.append({"layout": [[7]], "M": 1, "index": False, "agents": False, "chunk": 3})
        out.append({"layout": [[2], [3]], "M": 2, "index": True, "agents": False, "chunk": 3})
        out.append({"layout": [[4]], "M": 1, "index": True, "agents": True, "chunk": 3})
        # two steps without execution first (crossing quotes wait in the book), then execution
        out.append({"layout": [[2], [2]], "M": 1, "index": False, "agents": True, "chunk": 3, "noexec_first": True})
        if tier == "thorough":
            out.append({"layout": [[4]], "M": 2, "index": False, "agents": True, "chunk": 3, "light": True})
            out.append({"layout": [[120], [85]], "M": 2, "index": True, "agents": False, "chunk": 100})
        return out

    def run(self, g, case):
        markets = {f"M{i}": {"class": "Market", "tickSize": 1, "marketPrice": 300 + 10 * i, "outstandingShares": 100,
                             "fundamentalDrift": 0.0} for i in range(case["M"])}
        if case["index"]:
            markets["IDX"] = {"class": "IndexMarket", "tickSize": 1, "marketPrice": 300, "markets": list(markets)}
        sessions = [rn.session(i, n[0], True, not (case.get("noexec_first") and i == 0), maxNormalOrders=2)
                    for i, n in enumerate(case["layout"])]
        total = sum(n[0] for n in case["layout"])
        rate = g.real("rate", -1, 5, lo_strict=True)
        extra = {"PROBE": {"class": "ProbeAll"},
                 "SHOCK": {"class": "FundamentalPriceShock", "target": "M0", "triggerTime": 1,
                           "priceChangeRate": rate, "shockTimeLength": 2 if total > 2 else 1},
                 "DRIFT": {"class": "DriftChange"}}
        sessions[0]["events"] = ["PROBE"] + (["SHOCK"] if total > 1 else []) + (["DRIFT"] if total > 2 else [])
        st = rn.base_settings(n_agents=2 if case["agents"] else 1, sessions=sessions, markets=markets, extra=extra)
        st["A"]["markets"] = ["M0"] if not case.get("light") else ["M0", "M1"]
        if case["agents"]:
            # buyer: quotes at t=0 (ttl 1), cancels or re-quotes at t=1, quotes at t=2; seller: quotes at t=0..2
            menu = {"per_agent": {"0": {"side": "B", "acts_by_time": {"0": ["limit"], "1": ["cancel", "limit"],
                                                                      "2": ["limit"], "3": ["none"]}},
                                  "1": {"side": "S", "acts_by_time": {"0": ["limit"], "1": ["limit"], "2": ["none"],
                                                                      "3": ["none"]}}},
                    "vol_fixed": 1, "price_hi": 1000, "ttl": [1] if not case.get("light") else [None], "drift_at": 2}
        else:
            menu = {"acts": ["none"], "drift_at": 2}
        mon = _Watch(g, case, total)
        ctx = rn.make_run(g, st, menu, classes=(DriftChange,), on_event=mon)
        sim = ctx.sim
        mon.ctx = ctx
        for m in sim.markets:
            m.chunk_size = case["chunk"]
        sim.fundamentals._generate_chunk_size = case["chunk"]
        # session spans as configured
        t = 0
        for s, n in zip(sim.sessions, case["layout"]):
            g.require(s.session_start_time == t, "C06.session-start!=sum-of-previous-lengths",
                      f"session {s.name} starts at {s.session_start_time}, previous sessions span {t} steps")
            t += n[0]
        ctx.runner._run()
        mon.finish()


class _Watch:
    def __init__(self, g, case, total):
        self.g = g
        self.case = case
        self.total = total
        self.ctx = None
        self.step = -1
        self.snap = {}        # market name -> {series name -> list of values for times 0..t (at the end of step t)}
        self.begin = {}
        self.ends = {}
        self.nq = 0

    def __call__(self, kind, agent, p):
        g = self.g
        ctx = self.ctx
        if ctx is None:
            return
        sim = ctx.sim
        if kind == "log-write" and type(p).__name__ == "ExecutionLog":
            g.note("fill")
            g.note("nontrivial")
        if kind == "canceled":
            g.note("cancel")
            g.note("nontrivial")
        if kind == "drift-changed":
            g.note("drift-changed")
        if kind in ("consult", "hook:order-after") and self.step >= 0 and self.total <= 10:
            self.mid_step_read(sim)
        if kind == "log-direct" and isinstance(p, MarketStepBeginLog):
            m = p.market
            if m is sim.markets[0]:
                self.step += 1
            # one clock: every market reads the same time, 0 in the first step, +1 per step
            for other in sim.markets:
                g.require(other.get_time() == self.step, "C06.clock",
                          f"market {other.name} reads time {other.get_time()} in step {self.step}")
            self.begin[m.name, self.step] = p.session
        if kind == "log-direct" and isinstance(p, MarketStepEndLog):
            m = p.market
            for other in sim.markets:
                g.require(other.get_time() == self.step, "C06.clock",
                          f"market {other.name} reads time {other.get_time()} at the end of step {self.step}")
            self.ends[m.name, self.step] = p.session
            self.check_market(m)

    def mid_step_read(self, sim):
        """an agent or an event reads the present and the past in the middle of a step (explicit current time and
        every earlier time): reading must not disturb anything, and the past must read as recorded."""
        g = self.g
        g.note("mid-step-read")
        for m in sim.markets:
            now = m.get_time()
            for name in SCALARS:
                getattr(m, name)(now)
            old = self.snap.get(m.name)
            if old is None:
                continue
            for name in SCALARS:
                key = "vwap" if name == "get_vwap" else "get_" + name[4:] + "s"
                for t, v in enumerate(old[key]):
                    g.require(_eq(getattr(m, name)(t), v), "C06.history-changed",
                              f"{m.name}.{name}({t}) read in the middle of step {now} differs from the value recorded")

    def check_market(self, m):
        g = self.g
        now = m.get_time()
        if now >= self.case["chunk"]:
            g.note("chunk-crossed")
        cur = {}
        for name in SERIES:
            vals = getattr(m, name)()                  # times=None: everything up to now
            g.require(len(vals) == now + 1, "C06.series-length", f"{name}() has {len(vals)} entries at time {now}")
            cur[name] = list(vals)
            alt = getattr(m, name)(range(now + 1))
            g.require(len(alt) == len(vals) and all(bool(_eq(a, b)) for a, b in zip(alt, vals)), "C06.series-forms-differ")
        cur["vwap"] = [m.get_vwap(t) for t in range(now + 1)]
        from pams.index_market import IndexMarket as _IM
        if isinstance(m, _IM):
            # the index values reported for every time so far (recomputed from the components' recorded prices)
            for name in ("get_index", "get_market_index", "compute_market_index", "get_fundamental_index"):
                cur["index:" + name] = [getattr(m, name)(t) for t in range(now + 1)]
        for name in SCALARS[:-1]:
            sv = getattr(m, name)(now)
            g.require(_eq(sv, cur["get_" + name[4:] + "s"][now]), "C06.scalar!=series", name)
            g.require(_eq(getattr(m, name)(), sv), "C06.scalar-forms-differ", f"{name}() != {name}({now}) at the end of step {now}")
        g.require(_eq(m.get_vwap(), cur["vwap"][now]), "C06.scalar-forms-differ",
                  f"get_vwap() != get_vwap({now}) at the end of step {now}")
        old = self.snap.get(m.name)
        if old is not None:
            for name, vals in old.items():
                for t, v in enumerate(vals):
                    g.require(_eq(cur[name][t], v), "C06.history-changed",
                              f"{m.name}.{name}: value recorded for time {t} changed during step {now}")
        self.snap[m.name] = cur
        # the future is refused: scalar and sequence forms, ascending and descending ranges
        self.nq += 1
        d = g.int(f"d{self.nq}", 1, 10 ** 6)
        for name in SCALARS:
            self.refused(lambda: getattr(m, name)(now + d), f"{name}(now+d)")
        for name in SERIES:
            self.refused(lambda: getattr(m, name)([0, now + d]), f"{name}([0, now+d])")
            self.refused(lambda: getattr(m, name)([now + d, 0]), f"{name}([now+d, 0])")
        from pams.index_market import IndexMarket
        if isinstance(m, IndexMarket):
            for name in ("get_index", "get_market_index", "compute_market_index", "get_fundamental_index",
                         "compute_fundamental_index"):
                self.refused(lambda: getattr(m, name)(now + d), f"{name}(now+d)")
                self.refused(lambda: getattr(m, name)(now + 1), f"{name}(now+1)")
        for kk in (1, 3):
            for name in SERIES[:3] + SERIES[4:5]:
                self.refused(lambda: getattr(m, name)(range(now + kk + 1)), f"{name}(range(now+{kk}+1))")
                self.refused(lambda: getattr(m, name)(range(now + kk, -1, -1)), f"{name}(descending range from now+{kk})")

    def refused(self, fn, what):
        try:
            fn()
        except AssertionError:
            self.g.note("future-query-refused")
            return
        except IndexError:
            # refused, though by the storage bound rather than by the guard
            self.g.note("future-query-refused")
            return
        self.g.require(False, "C06.future-query-served", f"{what} was answered")

    def finish(self):
        g, sim = self.g, self.ctx.sim
        g.require(self.step == self.total - 1, "C06.number-of-steps", f"{self.step + 1} steps ran, {self.total} configured")
        t = 0
        for s, n in zip(sim.sessions, self.case["layout"]):
            for m in sim.markets:
                nb = sum(1 for (mn, k), ss in self.begin.items() if mn == m.name and ss is s)
                ne = sum(1 for (mn, k), ss in self.ends.items() if mn == m.name and ss is s)
                g.require(nb == n[0] and ne == n[0], "C06.session-length",
                          f"session {s.name}: {nb} step-begin / {ne} step-end records for {m.name}, configured {n[0]}")
                for k in range(t, t + n[0]):
                    g.require(self.begin.get((m.name, k)) is s, "C06.session-span",
                              f"step {k} of market {m.name} does not belong to session {s.name}")
            t += n[0]
        # after the run the clock reads the number of steps and the whole recorded history is still the same
        for m in sim.markets:
            g.require(m.get_time() == self.total, "C06.clock")
            for name, vals in self.snap[m.name].items():
                if name == "vwap" or name.startswith("index:"):
                    continue
                now_vals = getattr(m, name)(range(len(vals)))
                for tt, v in enumerate(vals):
                    g.require(_eq(now_vals[tt], v), "C06.history-changed",
                              f"{m.name}.{name}: value recorded for time {tt} changed after the run")
        if self.total > 1:
            g.note("shock")


class C06_ClockAndHistory(ClockAndHistory):
    pass

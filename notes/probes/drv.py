import sys, time, collections, importlib, warnings
warnings.simplefilter("ignore")
from crosshair.core_and_libs import analyze_function, run_checkables
from crosshair.options import AnalysisOptionSet, AnalysisKind
from crosshair.statespace import MessageType
modname, fn, to = sys.argv[1], sys.argv[2], float(sys.argv[3])
mod = importlib.import_module(modname)
stats = collections.Counter()
opts = AnalysisOptionSet(per_condition_timeout=to, report_all=True, stats=stats,
                         analysis_kind=[AnalysisKind.PEP316], max_uninteresting_iterations=0)
t=time.time()
msgs = run_checkables(analyze_function(getattr(mod, fn), opts))
print("wall", round(time.time()-t,1), dict(stats))
for m in msgs:
    print(m.state, m.message[:600])

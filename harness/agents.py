"""C20: the real submit_orders of the built-in agents on symbolic market states."""
import itertools
import random

import pams.agents.fcn_agent as FA
from pams.agents import ArbitrageAgent, FCNAgent, MarketMakerAgent, MarketShareFCNAgent
from pams.index_market import IndexMarket
from pams.market import Market
from pams.order import LIMIT_ORDER, MARKET_ORDER, Cancel, Order
from pams.simulator import Simulator

from sx import sand, sor, snot, ite, is_sym, aeq
from sx.driver import Harness
from .common import SymRandom
from .mathstub import MathStub


def _market(sim, mid, name, price=300, cls=Market, extra=None):
    m = cls(market_id=mid, prng=random.Random(0), simulator=sim, name=name)
    st = {"tickSize": 1, "marketPrice": price, "outstandingShares": 100}
    if extra:
        st.update(extra)
    return m, st


def _trade(m, p, v=1):
    """a real trade at price p sets the market price (and the step's executed volume)."""
    m._add_order(Order(agent_id=90, market_id=m.market_id, is_buy=True, kind=LIMIT_ORDER, volume=v, price=p))
    m._add_order(Order(agent_id=91, market_id=m.market_id, is_buy=False, kind=LIMIT_ORDER, volume=v, price=p))
    m._execution()


def _wellformed(g, o, agent, market_ids, tag="C20"):
    g.require(isinstance(o, Order), f"{tag}.not-an-order")
    g.require(o.agent_id == agent.agent_id, f"{tag}.foreign-agent-id")
    g.require(o.market_id in market_ids and agent.is_market_accessible(o.market_id), f"{tag}.inaccessible-market")
    g.require(o.placed_at is None and o.order_id is None, f"{tag}.pre-filled-order")
    g.require(o.volume > 0, f"{tag}.non-positive-volume")
    g.require((o.kind == LIMIT_ORDER and o.price is not None) or (o.kind == MARKET_ORDER and o.price is None),
              f"{tag}.kind-price-mismatch")
    g.require(o.ttl is None or o.ttl > 0, f"{tag}.bad-ttl")


class FCN(Harness):
    cvc5_recheck = True      # thorough tier: obligations re-discharged with cvc5
    name = "FCN"
    title = "real FCNAgent.submit_orders on a symbolic price history"
    what_symbolic = ("weights wF,wC,wN >= 0 (sum > 0), noise scale, margin, market prices of the history (set by real "
                     "trades), fundamental price, the Gaussian draws; log/exp by contract")
    nontrivial_event = "the agent emitted an order"
    bounds = {"quick": "window w in {1,2,3}, current time t in {0,1,3} (t < w and t >= w), mean reversion time in {0,1,5}, "
                       "chart following / contrarian, fixed and normal margin, accessible and inaccessible market",
              "thorough": "every window 1..5 x current time 0..6 x mean reversion time {0,1,5} x both chart modes x both margin modes"}
    reach = ("nontrivial", "buy", "sell", "no-order", "window-clamped")
    stubs = ("pams.agents.fcn_agent.math -> contract stub (log: defined for x > 0; exp: positive; values otherwise arbitrary)",
             "agent prng.gauss -> solver real")
    outside = ("numerical values of log / exp / gauss",)
    agreement_runs = 6

    def cases(self, tier):
        out = []
        for w, t in ((2, 3), (3, 1), (1, 1), (2, 0), (3, 3)):
            for mrt in (0, 5):
                for follow in (True, False):
                    for margin in ("fixed", "normal"):
                        out.append({"w": w, "t": t, "mrt": mrt, "follow": follow, "margin": margin, "access": True})
        out.append({"w": 2, "t": 3, "mrt": 1, "follow": True, "margin": "fixed", "access": False})
        if tier == "thorough":
            for w in (1, 2, 3, 4, 5):
                for t in range(0, 7):
                    for mrt in (0, 1, 5):
                        for follow in (True, False):
                            for margin in ("fixed", "normal"):
                                c = {"w": w, "t": t, "mrt": mrt, "follow": follow, "margin": margin, "access": True}
                                if c not in out:
                                    out.append(c)
        return out

    def run(self, g, case):
        # exp(x) > 0 and the domain of log are the only facts used: 'buys exactly when the expected future price
        # exceeds the market price' is decided on expected = price x EXP(exponent) itself; the exponent is checked
        # as a polynomial identity
        stub = MathStub(g, pairwise=False, signs=False)
        old = FA.math
        FA.math = stub
        try:
            sim = Simulator(prng=random.Random(0))
            m, st = _market(sim, 0, "M")
            m.setup(st)
            sim._add_market(m)
            m._is_running = True
            prices, fund = [], None
            for t in range(case["t"] + 1):
                fund = g.real(f"f{t}", 0, 10 ** 6, lo_strict=True)
                m._update_time(next_fundamental_price=fund)
                p = g.int(f"p{t}", 1, 10 ** 6)
                _trade(m, p)
                prices.append(p)
            prng = SymRandom(g, "ag")
            a = FCNAgent(agent_id=7, prng=prng, simulator=sim, name="a")
            a.setup({"cashAmount": 1000, "assetVolume": 10, "fundamentalWeight": 1.0, "chartWeight": 1.0,
                     "noiseWeight": 1.0, "noiseScale": 0.1, "timeWindowSize": case["w"], "orderMargin": 0.1,
                     "marginType": case["margin"], "meanReversionTime": case["mrt"]},
                    accessible_markets_ids=[0] if case["access"] else [])
            wF, wC, wN = (g.real(n, 0, 100) for n in ("wF", "wC", "wN"))
            g.assume(wF + wC + wN > 0)
            a.fundamental_weight, a.chart_weight, a.noise_weight = wF, wC, wN
            a.noise_scale = g.real("ns", 0, 10)
            # normal mode: the margin multiplies a Gaussian draw; a concrete margin keeps that product linear
            a.order_margin = g.real("mg", 0, 1) if case["margin"] == "fixed" else 2.5
            a.is_chart_following = case["follow"]
            try:
                orders = a.submit_orders(markets=[m])
            except AssertionError:
                # observation, outside the property: in 'normal' margin mode the agent asserts that its quote
                # (expected price + gauss x margin) is not negative and raises instead of emitting such an order
                ex = [c for c in stub.calls if c[0] == "exp"]
                if case["margin"] == "normal" and len(ex) == 1 and len(prng.last_g_list) == 2 and \
                        bool(prices[case["t"]] * ex[0][2] + prng.last_g_list[1] * a.order_margin < 0):
                    g.note("normal-margin-negative-quote-refused")
                    return
                raise
            if not case["access"]:
                g.require(orders == [], "C20.order-for-inaccessible-market")
                g.note("no-order")
                return
            g.require(len(orders) <= 1, "C20.fcn-more-than-one-order")
            # ---- the documented expected log return, rebuilt from the stub's outputs
            t, w = case["t"], case["w"]
            tw = min(t, w)
            if tw < w:
                g.note("window-clamped")
            logs = [c for c in stub.calls if c[0] == "log"]
            exps = [c for c in stub.calls if c[0] == "exp"]
            g.require(len(logs) == 2 and len(exps) == 1, "C20.fcn-unexpected-math-calls")
            p_t, p_ref = prices[t], prices[t - tw]
            g.require(aeq(logs[0][1], fund / p_t), "C20.fcn-fundamental-term", "log argument is not fundamental / market price")
            g.require(aeq(logs[1][1], p_t / p_ref), "C20.fcn-chart-term", "log argument is not p(t) / p(t - window)")
            F = (1.0 / max(case["mrt"], 1)) * logs[0][2]
            C = (1.0 / max(tw, 1)) * logs[1][2]
            N = a.noise_scale * prng.last_g_list[0]
            spec = (1.0 / (wF + wC + wN)) * (wF * F + wC * C * (1 if case["follow"] else -1) + wN * N)
            g.require(aeq(exps[0][1], spec * w), "C20.fcn-expected-log-return",
                      "exponent is not window x weighted (fundamental, chart, noise) log-return")
            expected = p_t * exps[0][2]
            if len(orders) == 1:
                o = orders[0]
                g.note("nontrivial")
                _wellformed(g, o, a, [0])
                g.require(sand(o.kind == LIMIT_ORDER, o.volume == 1, o.ttl == w), "C20.fcn-order-shape")
                if o.is_buy:
                    g.note("buy")
                    g.require(expected > p_t, "C20.fcn-side", "bought although the expected price is not above the market price")
                else:
                    g.note("sell")
                    g.require(expected < p_t, "C20.fcn-side", "sold although the expected price is not below the market price")
                if case["margin"] == "fixed":
                    want = expected * (1 - a.order_margin) if o.is_buy else expected * (1 + a.order_margin)
                else:
                    want = expected + prng.last_g_list[1] * a.order_margin
                g.require(aeq(o.price, want), "C20.fcn-price", "quote is not the expected price shaded by the margin")
                g.observe(o.is_buy)
            else:
                g.note("no-order")
                g.require(expected == p_t, "C20.fcn-silent", "no order although expected price differs from the market price")
        finally:
            FA.math = old


class MarketShareFCN(Harness):
    name = "MarketShareFCN"
    title = "real MarketShareFCNAgent: market chosen by recent traded volume, then the FCN order for that market only"
    what_symbolic = "the choice among markets (any market with positive weight), FCN parameters and prices as in FCN"
    nontrivial_event = "an order was emitted for the chosen market"
    bounds = {"quick": "2-3 markets (one possibly inaccessible), concrete traded volumes over a window of 2, time 3", "thorough": "same"}
    reach = ("nontrivial",)
    stubs = FCN.stubs + ("agent prng.choices -> any element with positive weight",)
    agreement_runs = 4

    def cases(self, tier):
        return [{"vols": v, "access": a} for v in ([[1, 2, 0, 3], [0, 0, 5, 0]], [[0, 0, 0, 0], [0, 0, 0, 0]],
                                                    [[2, 0, 0, 1], [1, 1, 1, 1], [0, 3, 0, 0]])
                for a in ("all", "not-first")]

    def run(self, g, case):
        # exp(x) > 0 and the domain of log are the only facts used: 'buys exactly when the expected future price
        # exceeds the market price' is decided on expected = price x EXP(exponent) itself; the exponent is checked
        # as a polynomial identity
        stub = MathStub(g, pairwise=False, signs=False)
        old = FA.math
        FA.math = stub
        try:
            sim = Simulator(prng=random.Random(0))
            ms = []
            for i, vols in enumerate(case["vols"]):
                m, st = _market(sim, i, f"M{i}", price=100 * (i + 1))
                m.setup(st)
                sim._add_market(m)
                m._is_running = True
                ms.append(m)
            T = 4
            px = {}
            for t in range(T):
                for i, m in enumerate(ms):
                    m._update_time(next_fundamental_price=g.real(f"f{i}_{t}", 0, 10 ** 6, lo_strict=True))
                    p = g.int(f"p{i}_{t}", 1, 10 ** 6)
                    px[i, t] = p
                    v = case["vols"][i][t]
                    if v:
                        _trade(m, p, v)
            prng = SymRandom(g, "ag")
            a = MarketShareFCNAgent(agent_id=3, prng=prng, simulator=sim, name="a")
            acc = list(range(len(ms))) if case["access"] == "all" else list(range(1, len(ms)))
            a.setup({"cashAmount": 1000, "assetVolume": 10, "fundamentalWeight": 1.0, "chartWeight": 0.0,
                     "noiseWeight": 0.0, "noiseScale": 0.0, "timeWindowSize": 2, "orderMargin": 0.0},
                    accessible_markets_ids=acc)
            orders = a.submit_orders(markets=ms)
            # weights = executed volume over [t-2, t] + 1e-10, for accessible markets in the given order
            w = prng.last_weights
            g.require(len(w) == len(acc), "C20.share-weights-cover-accessible-markets")
            for k, i in enumerate(acc):
                want = float(sum(case["vols"][i][T - 1 - 2:T])) + 1e-10
                g.require(w[k] == want, "C20.share-weight!=recent-volume", f"market {i}: weight {w[k]} != {want}")
            chosen = acc[prng.last_choice]
            g.require(len(orders) <= 1, "C20.fcn-more-than-one-order")
            for o in orders:
                g.note("nontrivial")
                _wellformed(g, o, a, acc)
                g.require(o.market_id == chosen, "C20.share-order-on-other-market",
                          "order emitted for a market other than the one drawn")
                logs = [c for c in stub.calls if c[0] == "log"]
                mp = ms[chosen].get_market_price()
                g.require(aeq(logs[0][1], ms[chosen].get_fundamental_price() / mp), "C20.fcn-fundamental-term")
        finally:
            FA.math = old


class MarketMaker(Harness):
    cvc5_recheck = True      # thorough tier: obligations re-discharged with cvc5
    name = "MarketMaker"
    title = "real MarketMakerAgent.submit_orders over symbolic books of its accessible markets"
    what_symbolic = "best bids / asks of up to 2 markets (limit prices, or absent), fundamental price, spread"
    nontrivial_event = "both quotes were emitted"
    bounds = {"quick": "2 markets x (bid present/absent) x (ask present/absent), second market accessible or not; the "
                       "target market itself not accessible", "thorough": "same"}
    reach = ("nontrivial", "base-from-quotes", "base-from-market-price", "target-inaccessible")
    agreement_runs = 6

    def cases(self, tier):
        out = []
        for pres in itertools.product((False, True), repeat=4):
            for acc2 in (True, False):
                out.append({"pres": list(pres), "acc2": acc2})
        # the configured target market is not among the markets the agent can access
        out.append({"pres": [True, True, True, True], "acc2": True, "target_inaccessible": True})
        out.append({"pres": [False, False, False, False], "acc2": True, "target_inaccessible": True})
        return out

    def run(self, g, case):
        sim = Simulator(prng=random.Random(0))
        ms = []
        for i in range(2):
            m, st = _market(sim, i, f"M{i}", price=300 + 50 * i)
            m.setup(st)
            sim._add_market(m)
            m._update_time(next_fundamental_price=g.real(f"f{i}", 0, 10 ** 6, lo_strict=True))
            ms.append(m)
        bids, asks = [], []
        for i, m in enumerate(ms):
            b = s = None
            if case["pres"][2 * i]:
                b = g.int(f"b{i}", 1, 10 ** 6)
                m._add_order(Order(agent_id=90, market_id=i, is_buy=True, kind=LIMIT_ORDER, volume=1, price=b))
            if case["pres"][2 * i + 1]:
                s = g.int(f"s{i}", 1, 10 ** 6)
                m._add_order(Order(agent_id=91, market_id=i, is_buy=False, kind=LIMIT_ORDER, volume=1, price=s))
            bids.append(b)
            asks.append(s)
        a = MarketMakerAgent(agent_id=5, prng=SymRandom(g, "ag"), simulator=sim, name="mm")
        acc = [0, 1] if case["acc2"] else [0]
        if case.get("target_inaccessible"):
            acc = [1]
            g.note("target-inaccessible")
            try:
                a.setup({"cashAmount": 1000, "assetVolume": 10, "targetMarket": "M0", "netInterestSpread": 0.02,
                         "orderTimeLength": 3}, accessible_markets_ids=acc)
            except ValueError:
                g.note("inaccessible-target-refused")      # a refused configuration emits nothing
                return
            a.net_interest_spread = g.real("spread", 0, 1)
            for o in a.submit_orders(markets=ms):
                _wellformed(g, o, a, acc)
            g.note("inaccessible-target-silent")
            return
        a.setup({"cashAmount": 1000, "assetVolume": 10, "targetMarket": "M0", "netInterestSpread": 0.02,
                 "orderTimeLength": 3}, accessible_markets_ids=acc)
        spread = g.real("spread", 0, 1)
        a.net_interest_spread = spread
        orders = a.submit_orders(markets=ms)
        g.require(len(orders) == 2, "C20.mm-not-two-orders")
        buys = [o for o in orders if o.is_buy]
        sells = [o for o in orders if not o.is_buy]
        g.require(len(buys) == 1 and len(sells) == 1, "C20.mm-not-one-buy-one-sell")
        g.note("nontrivial")
        for o in orders:
            _wellformed(g, o, a, acc)
            g.require(sand(o.market_id == 0, o.kind == LIMIT_ORDER, o.volume == 1, o.ttl == 3), "C20.mm-order-shape")
        bb = [bids[i] for i in acc if bids[i] is not None]
        aa = [asks[i] for i in acc if asks[i] is not None]
        if bb and aa:
            g.note("base-from-quotes")
            hi = bb[0]
            for x in bb[1:]:
                hi = ite(x > hi, x, hi)
            lo = aa[0]
            for x in aa[1:]:
                lo = ite(x < lo, x, lo)
            base = (hi + lo) / 2.0
        else:
            g.note("base-from-market-price")
            base = ms[0].get_market_price()
        g.require(aeq(buys[0].price + sells[0].price, 2 * base), "C20.mm-not-symmetric-around-base",
                  "quotes are not symmetric around (best bid + best ask)/2 of the accessible markets")
        g.require(aeq(sells[0].price - buys[0].price, ms[0].get_fundamental_price() * spread), "C20.mm-spread",
                  "ask - bid is not fundamental price x spread")


class Arbitrage(Harness):
    cvc5_recheck = True      # thorough tier: obligations re-discharged with cvc5
    name = "Arbitrage"
    title = "real ArbitrageAgent.submit_orders around the threshold"
    what_symbolic = "index market price, component market prices (set by real trades), threshold (>= 0), order volume v in [1,100]"
    nontrivial_event = "a hedged basket was emitted"
    bounds = {"quick": "index over 2 or 3 equal-share components; all running / index stopped / a component stopped; polled "
                       "once, and polled twice in one step with a component trade in between; index or one component not "
                       "accessible to the agent; a second, untradable index market listed first",
              "thorough": "2 to 5 components"}
    reach = ("nontrivial", "silent-inside-threshold", "index-cheap", "index-rich", "not-running-silent", "second-poll",
             "no-access-silent", "untradable-index-listed-first")
    agreement_runs = 6

    def cases(self, tier):
        out = []
        for n in ((2, 3) if tier == "quick" else (2, 3, 4, 5)):
            for stop in (None, "index", "component"):
                for twice in (False, True):
                    if stop and twice:
                        continue
                    out.append({"n": n, "stop": stop, "twice": twice})
            # the agent cannot access the index market / one of the components
            out.append({"n": n, "stop": None, "twice": False, "no_access": "index"})
            out.append({"n": n, "stop": None, "twice": False, "no_access": "component"})
        # two index markets; the first one in the list is not tradable (stopped, or a component of it stopped):
        # the agent still acts on the second
        out.append({"n": 2, "stop": None, "twice": False, "other_index": "index"})
        out.append({"n": 2, "stop": None, "twice": False, "other_index": "component"})
        return out

    def run(self, g, case):
        sim = Simulator(prng=random.Random(0))
        n = case["n"]
        comps = []
        for i in range(n):
            m, st = _market(sim, i, f"C{i}", price=100 * (i + 1))
            m.setup(st)
            sim._add_market(m)
            comps.append(m)
        idx, st = _market(sim, n, "IDX", cls=IndexMarket, extra={"markets": [m.name for m in comps]})
        idx.setup(st)
        sim._add_market(idx)
        for m in comps:
            m._update_time(next_fundamental_price=100.0)
            m._is_running = True
        idx._update_time(next_fundamental_price=100.0)
        idx._is_running = True
        for i, m in enumerate(comps):
            _trade(m, g.int(f"p{i}", 1, 10 ** 6))
        _trade(idx, g.int("pi", 1, 10 ** 6))
        a = ArbitrageAgent(agent_id=9, prng=SymRandom(g, "ag"), simulator=sim, name="arb")
        a.setup({"cashAmount": 1000, "assetVolume": 10, "orderVolume": 2, "orderThresholdPrice": 1.0,
                 "orderTimeLength": 4},
                accessible_markets_ids={None: list(range(n + 1)), "index": list(range(n)),
                                        "component": list(range(1, n + 1))}[case.get("no_access")])
        thr = g.real("thr", 0, 10 ** 6)
        v = g.int("v", 1, 100)
        a.order_threshold_price = thr
        a.order_volume = v
        if case["stop"] == "index":
            idx._is_running = False
        elif case["stop"] == "component":
            comps[-1]._is_running = False
        markets = comps + [idx]
        if case.get("other_index"):
            # a second index over two further components, listed before the first one; it cannot be traded
            oc = []
            for i in range(2):
                m, st = _market(sim, n + 1 + i, f"D{i}", price=100)
                m.setup(st)
                sim._add_market(m)
                m._update_time(next_fundamental_price=100.0)
                m._is_running = True
                oc.append(m)
            oidx, st = _market(sim, n + 3, "IDX0", cls=IndexMarket, extra={"markets": [m.name for m in oc]})
            oidx.setup(st)
            sim._add_market(oidx)
            oidx._update_time(next_fundamental_price=100.0)
            oidx._is_running = case["other_index"] != "index"
            if case["other_index"] == "component":
                oc[0]._is_running = False
            _trade_ok = [m for m in oc if m.is_running]
            for m in oc + [oidx]:
                a.set_market_accessible(market_id=m.market_id)
                a.set_asset_volume(market_id=m.market_id, volume=10)
            markets = oc + [oidx] + markets
            g.note("untradable-index-listed-first")
        self.poll(g, a, markets, comps, idx, thr, v, case)
        if case["twice"]:
            g.note("second-poll")
            _trade(comps[0], g.int("p0b", 1, 10 ** 6))
            self.poll(g, a, markets, comps, idx, thr, v, case)

    def poll(self, g, a, markets, comps, idx, thr, v, case):
        n = len(comps)
        orders = a.submit_orders(markets=markets)
        if case.get("no_access"):
            # no basket can be sent without an order for a market the agent cannot access: the agent must stay silent
            for o in orders:
                _wellformed(g, o, a, [m.market_id for m in markets])
            g.require(orders == [], "C20.arb-partial-basket", "a basket without one of its legs")
            g.note("no-access-silent")
            return
        if case["stop"]:
            g.require(orders == [], "C20.arb-orders-while-a-market-is-stopped")
            g.note("not-running-silent")
            return
        ip = idx.get_market_price()
        ci = sum(m.get_market_price() for m in comps) / n      # equal shares
        gap = ip - ci
        if not orders:
            g.note("silent-inside-threshold")
            g.require(sand(gap <= thr, -gap <= thr), "C20.arb-silent-beyond-threshold",
                      "no orders although |index price - computed index| exceeds the threshold")
            return
        g.note("nontrivial")
        g.require(sor(gap > thr, -gap > thr), "C20.arb-orders-inside-threshold",
                  "orders although |index price - computed index| is within the threshold")
        g.require(len(orders) == n + 1, "C20.arb-basket-size", f"{len(orders)} orders, expected {n + 1}")
        index_buy = bool(ip < ci)
        g.note("index-cheap" if index_buy else "index-rich")
        legs_i = [o for o in orders if o.market_id == idx.market_id]
        g.require(len(legs_i) == 1, "C20.arb-index-leg")
        for o in orders:
            _wellformed(g, o, a, [m.market_id for m in markets])
            g.require(sand(o.kind == LIMIT_ORDER, o.ttl == 4), "C20.arb-order-shape")
        io = legs_i[0]
        g.require(sand(io.is_buy == index_buy, io.volume == n * v, io.price == ip), "C20.arb-index-leg",
                  "index leg is not n x v on the cheap side at the index market price")
        for m in comps:
            legs = [o for o in orders if o.market_id == m.market_id]
            g.require(len(legs) == 1, "C20.arb-component-leg")
            o = legs[0]
            g.require(sand(o.is_buy == (not index_buy), o.volume == v, o.price == m.get_market_price()),
                      "C20.arb-component-leg", "component leg is not v on the opposite side at its market price")


class Populations(Harness):
    """several agents of one kind in one process: set up from one settings object / consulted one after the other."""
    name = "Populations"
    title = "agents of one population do not influence each other (shared settings object, shared class state)"
    what_symbolic = "the uniform draws of the agents' generators (window sizes), index and component prices, threshold"
    nontrivial_event = "the second agent's behaviour was checked after the first one had been set up / consulted"
    bounds = {"quick": "two FCN agents set up from one settings dict without meanReversionTime and with a random window; "
                       "two arbitrage agents with full and partial access to the components consulted in both orders",
              "thorough": "same"}
    reach = ("nontrivial",)
    agreement_runs = 2

    def cases(self, tier):
        return [{"kind": "fcn-shared-settings"}, {"kind": "arb-mixed-access", "first": "full"},
                {"kind": "arb-mixed-access", "first": "partial"}]

    def run(self, g, case):
        import copy
        sim = Simulator(prng=random.Random(0))
        if case["kind"] == "fcn-shared-settings":
            m, st = _market(sim, 0, "M")
            m.setup(st)
            sim._add_market(m)
            settings = {"cashAmount": 1000, "assetVolume": 10, "fundamentalWeight": 1.0, "chartWeight": 1.0,
                        "noiseWeight": 1.0, "noiseScale": 0.1, "timeWindowSize": [10, 50], "orderMargin": 0.1}
            before = copy.deepcopy(settings)
            agents = []
            for i in range(2):
                a = FCNAgent(agent_id=i, prng=SymRandom(g, f"ag{i}"), simulator=sim, name=f"a{i}")
                a.setup(settings, accessible_markets_ids=[0])
                agents.append(a)
            g.note("nontrivial")
            g.require(settings == before, "C20.settings-modified", "agent setup wrote into the settings it was given")
            for a in agents:
                # without the key the mean reversion time is the agent's own window
                g.require(a.mean_reversion_time == a.time_window_size, "C20.fcn-mean-reversion-default",
                          f"agent {a.name}: mean reversion time {a.mean_reversion_time}, window {a.time_window_size}")
            return
        n = 2
        comps = []
        for i in range(n):
            m, st = _market(sim, i, f"C{i}", price=100 * (i + 1))
            m.setup(st)
            sim._add_market(m)
            comps.append(m)
        idx, st = _market(sim, n, "IDX", cls=IndexMarket, extra={"markets": [m.name for m in comps]})
        idx.setup(st)
        sim._add_market(idx)
        for m in comps + [idx]:
            m._update_time(next_fundamental_price=100.0)
            m._is_running = True
        for i, m in enumerate(comps):
            _trade(m, g.int(f"p{i}", 1, 10 ** 6))
        _trade(idx, g.int("pi", 1, 10 ** 6))
        thr = g.real("thr", 0, 10 ** 6)
        access = {"full": [0, 1, 2], "partial": [1, 2]}
        order = [case["first"], "partial" if case["first"] == "full" else "full"]
        arb = Arbitrage()
        for k, who in enumerate(order):
            a = ArbitrageAgent(agent_id=10 + k, prng=SymRandom(g, f"ag{k}"), simulator=sim, name=who)
            a.setup({"cashAmount": 1000, "assetVolume": 10, "orderVolume": 2, "orderThresholdPrice": 1.0,
                     "orderTimeLength": 4}, accessible_markets_ids=access[who])
            a.order_threshold_price = thr
            if k == 1:
                g.note("nontrivial")
            arb.poll(g, a, comps + [idx], comps, idx, thr, 2,
                     {"stop": None, "no_access": None if who == "full" else "component"})


class C20_Populations(Populations):
    pass


class TestAgentOrders(Harness):
    name = "TestAgentOrders"
    title = "real TestAgent.submit_orders: well-formed orders under its own id for accessible markets only"
    what_symbolic = "the agent's uniform draws (price offset, buy/sell/none decision); volumes and lifetimes are the stub's randint values"
    nontrivial_event = "an order was emitted"
    bounds = {"quick": "3 markets of which 1 or 2 accessible", "thorough": "same"}
    reach = ("nontrivial", "no-order")
    agreement_runs = 4

    def cases(self, tier):
        return [{"acc": [0]}, {"acc": [0, 2]}, {"acc": [1]}]

    def run(self, g, case):
        from pams.agents import TestAgent
        sim = Simulator(prng=random.Random(0))
        ms = []
        for i in range(3):
            m, st = _market(sim, i, f"M{i}", price=100 * (i + 1))
            m.setup(st)
            sim._add_market(m)
            m._update_time(next_fundamental_price=100.0)
            ms.append(m)

        class P(SymRandom):
            def randint(self_inner, a, b):
                self_inner.n += 1
                return g.int(f"ri{self_inner.n}", a, b)
        a = TestAgent(agent_id=4, prng=P(g, "ta"), simulator=sim, name="t")
        a.setup({"cashAmount": 1000, "assetVolume": 10}, accessible_markets_ids=case["acc"])
        orders = a.submit_orders(markets=ms)
        g.require(len(orders) <= len(case["acc"]), "C20.test-agent-too-many-orders")
        if not orders:
            g.note("no-order")
        for o in orders:
            g.note("nontrivial")
            _wellformed(g, o, a, case["acc"])
            g.require(o.kind == LIMIT_ORDER and o.price is not None, "C20.test-agent-order-shape")


class C20_TestAgentOrders(TestAgentOrders):
    pass


class C20_FCN(FCN):
    pass


class C20_MarketShareFCN(MarketShareFCN):
    pass


class C20_MarketMaker(MarketMaker):
    pass


class C20_Arbitrage(Arbitrage):
    pass

"""property id -> (harness specs, explanation).  Every check is decided by SX exploring the real code."""

EXPLAIN = ("bounded symbolic execution of the real pams code: the harness runs the repository's own "
           "functions on proxy numbers; every branch and every oracle obligation is decided by z3 over "
           "all values inside the stated ranges; the decision tree of every structural case is explored "
           "to exhaustion; counterexamples are replayed concretely on the real code before being reported")

CHECKS = {
    "C01": {"harnesses": [("harness.matching", "C01_ClearingRound"), ("harness.matching", "C01_Continuous"),
                          ("harness.priority", "C01_HeapMaintenance")]},
    "C02": {"harnesses": [("harness.priority", "C02_OrderLaws"), ("harness.priority", "C02_HeapMaintenance"),
                          ("harness.matching", "C02_ClearingRound"), ("harness.matching", "C02_Continuous")],
            "post": ("harness.xcheck", "post_c02")},
    "C04": {"harnesses": [("harness.ophistory", "C04_OpHistory"), ("harness.ophistory", "C04_NegativeOps"),
                          ("harness.runs", "C04_Spoofing")]},
    "C05": {"harnesses": [("harness.runs", "C05_RunnerBasics")]},
    "C09": {"harnesses": [("harness.sessions", "C09_SessionRules")]},
    "C10": {"harnesses": [("harness.runs", "C10_RunnerBasics")]},
    "C11": {"harnesses": [("harness.runs", "C11_RunnerBasics")]},
    "C12": {"harnesses": [("harness.fundamentals", "C12_LogReturns"), ("harness.fundamentals", "C12_Paths")]},
    "C13": {"harnesses": [("harness.events", "C13_HookDispatch"), ("harness.events", "C13_HookValidation")]},
    "C14": {"harnesses": [("harness.events", "C14_FundamentalShock"), ("harness.events", "C14_MistakeShock")]},
    "C15": {"harnesses": [("harness.events", "C15_LimitRuleFn"), ("harness.events", "C15_LimitRuleRun")]},
    "C16": {"harnesses": [("harness.events", "C16_HaltTiming")]},
    "C17": {"harnesses": [("harness.functions", "C17_IndexValues"), ("harness.functions", "C17_IndexInRun")]},
    "C18": {"harnesses": [("harness.config", "C18_JsonExtends"), ("harness.config", "C18_Expansion"),
                          ("harness.config", "C18_RandomValues"), ("harness.config", "C18_UniformIEEE"),
                          ("harness.config", "C18_LegacyKeys"),
                          ("harness.config", "C18_ClassLookup")]},
    "C19": {"harnesses": [("harness.functions", "C19_TickRounding")]},
    "C20": {"harnesses": [("harness.agents", "C20_FCN"), ("harness.agents", "C20_MarketShareFCN"),
                          ("harness.agents", "C20_MarketMaker"), ("harness.agents", "C20_Arbitrage")]},
    "C06": {"harnesses": [("harness.clock", "C06_ClockAndHistory")]},
    "C07": {"harnesses": [("harness.repro", "C07_Reproducible")], "post": ("harness.repro", "post")},
    "C08": {"harnesses": [("harness.ophistory", "C08_OpHistory")]},
    "C03": {"harnesses": [("harness.matching", "C03_ClearingRound"), ("harness.matching", "C03_Continuous"),
                          ("harness.ophistory", "C03_OpHistory"), ("harness.priority", "C03_HeapMaintenance"),
                          ("harness.events", "C03_RoundsUnderHalt")]},
}

_L = ("bounded verification by symbolic execution of the real code: for every structural case in the stated bounds the "
      "decision tree of the real functions is explored to exhaustion with z3 deciding each branch and each oracle "
      "obligation over all numeric values in the stated ranges; this is the right level because the property quantifies over "
      "all inputs/histories/schedules and the deciding code is comparison-heavy integer/real arithmetic; outside the bounds "
      "nothing is claimed")
_N = ("trusted: z3, CPython, the proxy semantics (checked on every run by a concolic agreement test against plain Python "
      "values and by concrete replay of every counterexample), the oracles (transcriptions of the property text); floats are "
      "exact reals; stubs and bounds are listed in the evidence file")
META = {pid: {"level": _L, "note": _N} for pid in ["C%02d" % i for i in range(1, 21)]}

# properties not claimed (yet): kept current by hand
NOT_APPLICABLE = {
}

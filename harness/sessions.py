"""C09: session rules (placement / execution switches, caps, HFT interleaving) on the real runner."""
import itertools

from pams.agents import HighFrequencyAgent
from pams.logs import ExecutionLog, MarketStepBeginLog, MarketStepEndLog, SessionBeginLog, SessionEndLog

from sx import sand, sor, snot
from sx.driver import Harness
from . import rn
from .matching import _Monitors

EVENTS = {
    "halt": {"class": "TradingHaltRule", "targetMarkets": ["M"], "triggerChangeRate": 0.5, "haltingTimeLength": 1},
    "limit": {"class": "PriceLimitRule", "targetMarkets": ["M"], "triggerChangeRate": 0.5},
    "fshock": {"class": "FundamentalPriceShock", "target": "M", "triggerTime": 0, "priceChangeRate": -0.1,
               "shockTimeLength": 1},
    "mistake": {"class": "OrderMistakeShock", "target": "M", "triggerTime": 0, "priceChangeRate": -0.05,
                "orderVolume": 3, "orderTimeLength": 2},
    "probe": {"class": "ProbeAll"},
}


class SessionRules(Harness):
    name = "SessionRules"
    title = "session switches, order caps and HFT interleaving in real SequentialRunner runs"
    what_symbolic = ("agents' decisions (produce or not, price, volume), activation permutations, batch handling "
                     "order, the HFT rate draw u and (in the 'sym' cases) the submit rate rho in (0,1)")
    nontrivial_event = "at least one order was accepted in the run"
    reach = ("nontrivial", "cap-reached-agent-skipped", "hft-phase-run", "hft-phase-skipped", "fill",
             "no-exec-session-with-orders", "no-placement-session", "round-checked")
    assumptions = (rn.REDUCTION_NOTE,
                   
        "highFrequencySubmitRate: Session.setup() is given a concrete number; for the symbolic-rate cases the "
        "attribute it assigned is overwritten with a solver real in (0,1) (setup's parsing is checked in C18)",
        "scripted agents stand for arbitrary order-producing programs (one order per consultation)")
    outside = ("more than 3 normal / 2 HFT agents, more than 2 sessions, batches with more than one order",)
    bounds = {
        "quick": "F1 caps: 1 session x 1 step, 3 normal + 2 HFT agents, caps in {0,1,2}^2, rate in {0,1,sym} (two cases "
                 "with up to two items per consultation); "
                 "F2 flags: 2 sessions x (1..2 steps), all placement/execution combinations, 2 agents; "
                 "F3 events: each built-in event (and a probe) in either of two sessions, first session without execution",
        "thorough": "F1 all cap / rate combinations; F2 with a 2-step second session unless orders are placed in both sessions; "
                    "F3 with first sessions of 2, 3 and 4 steps and a halt of length 2",
    }
    agreement_runs = 8

    def cases(self, tier):
        out = []
        # F1: caps and HFT interleaving
        for mn, mh in itertools.product((0, 1, 2), repeat=2):
            for rate in ("0", "1", "sym"):
                if tier == "quick" and rate != "sym" and (mn, mh) not in ((2, 1), (1, 2), (0, 1), (2, 0), (3, 1)):
                    continue
                out.append({"fam": "caps", "mn": mn, "mh": mh, "rate": rate, "A": 3, "H": 2, "steps": 1})
        out.append({"fam": "caps", "mn": 3, "mh": 1, "rate": "sym", "A": 3, "H": 1, "steps": 1})
        # agents handing in up to two items per consultation: the caps count agents that produced orders
        out.append({"fam": "caps", "mn": 2, "mh": 1, "rate": "1", "A": 3, "H": 1, "steps": 1, "items": 2})
        out.append({"fam": "caps", "mn": 1, "mh": 2, "rate": "1", "A": 1, "H": 3, "steps": 1, "items": 2})
        # F2: flags matrix
        flags = [(True, True), (True, False), (False, True), (False, False)]
        for f0 in flags:
            out.append({"fam": "flags", "sessions": [[f0[0], f0[1], 2]]})
            for f1 in flags:
                if f0 == f1:
                    continue
                # (measured: two steps in the second session with orders placed in both sessions do not finish in 45 min)
                n1 = 2 if tier == "thorough" and not (f0[0] and f1[0]) else 1
                out.append({"fam": "flags", "sessions": [[f0[0], f0[1], 1], [f1[0], f1[1], n1]]})
        # F2b: a crossed book left by a no-execution session; in the execution session the accepted items are
        # cancels of (possibly unrelated) resting orders: a round must follow each of them
        out.append({"fam": "cancel-round", "n0": 2})
        # F3: built-in events, first session without execution
        for ev in EVENTS:
            for where in (0, 1):
                for n0 in ((3,) if tier == "quick" else (2, 3, 4)):
                    out.append({"fam": "events", "event": ev, "where": where, "n0": n0, "n1": 1, "L": 1})
            out.append({"fam": "events", "event": ev, "where": 0, "n0": 3, "n1": 0, "L": 1})
        out.append({"fam": "halt-then-noexec", "L": 1})
        # two markets: a normal agent and a high-frequency agent, each free to pick the market of its order
        out.append({"fam": "two-markets-hft"})
        # one agent hands in two items for one market in one consultation (the first executable on arrival): a round
        # follows each of them, not the batch
        out.append({"fam": "batch-rounds", "hft": False})
        out.append({"fam": "batch-rounds", "hft": True})
        # one halt rule over two target markets: after the halt both markets match again
        out.append({"fam": "halt-two-targets", "L": 1})
        if tier == "thorough":
            out.append({"fam": "halt-then-noexec", "L": 2})
            out.append({"fam": "events", "event": "halt", "where": 1, "n0": 2, "n1": 2, "L": 2})
        return out

    # ------------------------------------------------------------------------------------------
    def run(self, g, case):
        fam = case["fam"]
        if fam == "caps":
            sessions = [rn.session(0, case["steps"], True, True, maxNormalOrders=case["mn"],
                                   maxHighFrequencyOrders=case["mh"],
                                   highFrequencySubmitRate={"0": 0.0, "1": 1.0, "sym": 0.5}[case["rate"]])]
            st = rn.base_settings(n_agents=case["A"], n_hft=case["H"], sessions=sessions)
            # buys only at one concrete price: the subject here is scheduling, not matching
            menu = {"acts": ["none", "limit"], "side": "B", "price_fixed": 100, "vol_fixed": 1,
                    "max_orders": case.get("items", 1)}
        elif fam == "flags":
            sessions = [rn.session(i, n, p, e, maxNormalOrders=2) for i, (p, e, n) in enumerate(case["sessions"])]
            st = rn.base_settings(n_agents=2, sessions=sessions)
            menu = {"acts": ["none", "limit"], "per_agent": {"0": {"side": "B"}, "1": {"side": "S"}}}
        elif fam == "halt-then-noexec":
            # execution session of 2 steps with a halt rule; solver-chosen prices in its last step (the halt, if it
            # fires, outlives the session); then 3 steps without execution with crossing quotes at 300
            ev = dict(EVENTS["halt"])
            ev["haltingTimeLength"] = case["L"]
            ev["triggerChangeRate"] = 0.1
            sessions = [rn.session(0, 2, True, True, maxNormalOrders=2, events=["EV"]),
                        rn.session(1, 3, True, False, maxNormalOrders=2)]
            st = rn.base_settings(n_agents=2, sessions=sessions, extra={"EV": ev})
            menu = {"acts": ["limit"], "per_agent": {"0": {"side": "B"}, "1": {"side": "S"}}, "vol_fixed": 1,
                    "price_hi": 1000, "active_from": 1, "price_by_time": {"1": "sym", "default": 300}}
        elif fam == "two-markets-hft":
            markets = {f"M{i}": {"class": "Market", "tickSize": 1, "marketPrice": 300} for i in range(2)}
            sessions = [rn.session(0, 2, True, True, maxNormalOrders=1, maxHighFrequencyOrders=1, highFrequencySubmitRate=1.0)]
            st = rn.base_settings(n_agents=1, n_hft=1, sessions=sessions, markets=markets)
            # the normal agent sells one unit at 300 on a market of its choice in both steps; the high-frequency agent
            # buys one unit at 300 on a market of its choice after each normal batch
            menu = {"acts": ["limit"], "per_agent": {"0": {"side": "S"}, "1": {"side": "B", "acts": ["none", "limit"]}},
                    "price_fixed": 300, "vol_fixed": 1}
        elif fam == "batch-rounds":
            sessions = [rn.session(0, 2, True, True, maxNormalOrders=2, maxHighFrequencyOrders=1, highFrequencySubmitRate=1.0)]
            st = rn.base_settings(n_agents=1 if case["hft"] else 2, n_hft=1 if case["hft"] else 0, sessions=sessions)
            # t=0: agent 0 bids one unit at 300; t=1: the other agent (normal or high-frequency) sends two items: a sell
            # at 300 (executable on arrival) and then another sell / a cancel of that sell
            menu = {"vol_fixed": 1, "price_fixed": 300,
                    "per_agent": {"0": {"side": "B", "acts_by_time": {"0": ["limit"], "1": ["none", "limit"]}},
                                  "1": {"side": "S", "max_orders": 2, "acts_by_time": {"0": ["none"], "1": ["limit", "cancel"]}}}}
            if case["hft"]:
                menu["per_agent"]["0"]["acts_by_time"] = {"0": ["limit"], "1": ["limit"]}
        elif fam == "halt-two-targets":
            markets = {f"M{i}": {"class": "Market", "tickSize": 1, "marketPrice": 300} for i in range(2)}
            ev = dict(EVENTS["halt"])
            ev["haltingTimeLength"] = case["L"]
            ev["triggerChangeRate"] = 0.1
            ev["targetMarkets"] = ["M0", "M1"]
            sessions = [rn.session(0, 5, True, True, maxNormalOrders=2, events=["EV"])]
            st = rn.base_settings(n_agents=2, sessions=sessions, markets=markets, extra={"EV": ev})
            # t=1: solver-chosen prices on M0 (the fill may fire the halt); t=2..4: crossing quotes at 300 on M1
            menu = {"acts": ["limit"], "per_agent": {"0": {"side": "B"}, "1": {"side": "S"}}, "vol_fixed": 1,
                    "price_hi": 1000, "active_from": 1, "price_by_time": {"1": "sym", "default": 300},
                    "market_by_time": {"1": 0, "2": 1, "3": 1, "4": 1}}
        elif fam == "cancel-round":
            sessions = [rn.session(0, case["n0"], True, False, maxNormalOrders=2),
                        rn.session(1, 1, True, True, maxNormalOrders=2)]
            st = rn.base_settings(n_agents=2, sessions=sessions)
            menu = {"acts": ["limit"], "per_agent": {"0": {"side": "B"}, "1": {"side": "S"}}, "vol_fixed": 1,
                    "acts_by_time": {"0": ["limit"], str(case["n0"]): ["none", "cancel"]}}
        else:
            ev = dict(EVENTS[case["event"]])
            if "haltingTimeLength" in ev:
                ev["haltingTimeLength"] = case["L"]
            sessions = [rn.session(0, case["n0"], True, False, maxNormalOrders=2)]
            if case["n1"]:
                sessions.append(rn.session(1, case["n1"], True, True, maxNormalOrders=2))
            sessions[min(case["where"], len(sessions) - 1)]["events"] = ["EV"]
            st = rn.base_settings(n_agents=2, sessions=sessions, extra={"EV": ev})
            menu = {"acts": ["limit"], "per_agent": {"0": {"side": "B"}, "1": {"side": "S"}},
                    "active_from": case["n0"] - 1, "vol_fixed": 1}
        # a recording event in every session provides the "just before the next acceptance" observation point
        for sd in st["simulation"]["sessions"]:
            if "PROBE" not in sd.get("events", []) and not (fam == "events" and case["event"] == "probe"):
                sd["events"] = list(sd.get("events", [])) + ["PROBE"]
        st["PROBE"] = {"class": "ProbeAll"}
        watch = _RoundWatch(g, (fam == "events" and case["event"] == "halt") or fam in ("halt-then-noexec", "halt-two-targets"))
        ctx = rn.make_run(g, st, menu, on_event=watch)
        sim = ctx.sim
        ctx.declared_exec = {s.session_id: sd["withOrderExecution"]
                             for s, sd in zip(sim.sessions, st["simulation"]["sessions"])}
        watch.ctx = ctx
        rho = None
        if fam == "caps" and case["rate"] == "sym":
            rho = g.real("rho", 0, 1, lo_strict=True, hi_strict=True)
            sim.sessions[0].high_frequency_submission_rate = rho
        # what was configured (the settings written above), not what Session.setup made of it
        declared = []
        for s, sd in zip(sim.sessions, st["simulation"]["sessions"]):
            declared.append((s, sd["withOrderPlacement"], sd["withOrderExecution"], sd["iterationSteps"],
                             sd.get("maxNormalOrders", 1), sd.get("maxHighFrequencyOrders", 1),
                             rho if rho is not None else sd.get("highFrequencySubmitRate", 1.0)))
        ctx.sim = sim
        ctx.runner._run()
        self.oracle(g, ctx, declared)

    # ------------------------------------------------------------------------------------------
    def oracle(self, g, ctx, declared):
        sim, ev = ctx.sim, ctx.events
        normal_ids = [a.agent_id for a in sim.agents if not isinstance(a, HighFrequencyAgent)]
        hft_ids = [a.agent_id for a in sim.agents if isinstance(a, HighFrequencyAgent)]
        # session time windows
        win, t = [], 0
        for s, p, e, n, mn, mh, rate in declared:
            win.append((t, t + n - 1))
            t += n

        def session_of(time):
            for i, (lo, hi) in enumerate(win):
                if lo <= time <= hi:
                    return i
            return None

        # --- switches
        for kind, aid, p in ev:
            if kind == "consult":
                i = session_of(p)
                g.require(i is not None and declared[i][1], "C09.consulted-without-placement",
                          f"agent {aid} asked for orders at t={p} in a session without order placement")
            if kind == "submitted":
                g.note("nontrivial")
                i = session_of(p.time)
                g.require(i is not None and declared[i][1], "C09.order-accepted-without-placement")
                if not declared[i][2]:
                    g.note("no-exec-session-with-orders")
            if kind in ("log-write", "log-direct") and isinstance(p, ExecutionLog):
                g.note("fill")
                i = session_of(p.time)
                g.require(i is not None and declared[i][2], "C09.fill-in-session-without-execution",
                          f"a fill was recorded at t={p.time} in a session configured without order execution")
        for s, p, e, n, mn, mh, rate in declared:
            if not p:
                g.note("no-placement-session")

        # --- per step structure: split the event list at the step-begin records of the first market
        m0 = sim.markets[0]
        steps, cur = [], None
        keep = ("consult", "decided", "submitted", "canceled", "draw:random")
        for kind, aid, p in ev:
            if kind == "log-direct" and isinstance(p, MarketStepBeginLog) and p.market is m0:
                cur = []
                steps.append((p.session, cur))
            elif cur is not None and kind in keep:
                cur.append((kind, aid, p))
        for sess, evs in steps:
            d = [x for x in declared if x[0] is sess][0]
            _, place, execu, n, mn, mh, rate = d
            if not place:
                g.require(not evs or all(k == "draw:random" for k, _, _ in evs), "C09.activity-without-placement")
                continue
            # 1) collection phase: normal agents consulted at most once each, until the cap
            consulted, producers = [], []
            k = 0
            while k < len(evs) and evs[k][0] in ("consult", "decided") and evs[k][1] in normal_ids:
                kind, aid, p = evs[k]
                if kind == "consult":
                    consulted.append(aid)
                elif p:
                    producers.append(aid)
                k += 1
            g.require(len(set(consulted)) == len(consulted), "C09.normal-agent-consulted-twice")
            g.require(len(producers) <= max(mn, 0), "C09.normal-cap-exceeded",
                      f"{len(producers)} normal agents produced orders, maxNormalOrders={mn}")
            if len(consulted) < len(normal_ids):
                g.require(len(producers) >= mn, "C09.agent-skipped-before-cap",
                          "a normal agent was not consulted although the cap was not reached")
                g.note("cap-reached-agent-skipped")
            # 2) handling phase: every collected batch is accepted; one HFT phase after each batch
            rest = evs[k:]
            g.require(not any(kind == "consult" and aid in normal_ids for kind, aid, p in rest),
                      "C09.normal-agent-consulted-twice", "a normal agent was consulted during the handling phase")
            segs, curseg = [], None
            for kind, aid, p in rest:
                if kind in ("submitted", "canceled") and aid in normal_ids:
                    if curseg is None or curseg[0] != aid:
                        curseg = (aid, [])
                        segs.append(curseg)
                elif curseg is not None:
                    curseg[1].append((kind, aid, p))
            g.require(sorted(s_[0] for s_ in segs) == sorted(producers), "C09.batches-handled!=batches-collected",
                      "the batches accepted differ from the batches collected")
            for owner, sev in segs:
                hc = [aid for kind, aid, p in sev if kind == "consult" and aid in hft_ids]
                hp = [aid for kind, aid, p in sev if kind == "decided" and aid in hft_ids and p]
                # the rate draw of this batch: the draw that precedes the first HFT consultation
                u = None
                for kind, aid, p in sev:
                    if kind == "consult":
                        break
                    if kind == "draw:random":
                        u = p
                if hft_ids and mh > 0 and u is not None:
                    if hc:
                        g.note("hft-phase-run")
                        g.require(snot(u > rate), "C09.hft-phase-run-against-the-draw",
                                  "HFT phase ran although the draw was above the submit rate")
                    else:
                        g.note("hft-phase-skipped")
                        g.require(snot(u < rate), "C09.hft-phase-skipped-against-the-draw",
                                  "HFT phase skipped although the draw was below the submit rate")
                g.require(len(set(hc)) == len(hc), "C09.hft-agent-consulted-twice")
                g.require(len(hp) <= max(mh, 0), "C09.hft-cap-exceeded",
                          f"{len(hp)} HFT agents produced orders in one phase, maxHighFrequencyOrders={mh}")
                if hc and len(hc) < len(hft_ids):
                    g.require(len(hp) >= mh, "C09.hft-agent-skipped-before-cap")


class _RoundWatch:
    """online: after an acceptance on market m in an execution session a round must have happened by the
    time control returns to the runner's loop (next consultation / next acceptance / step end)."""

    def __init__(self, g, has_halt_rule):
        self.g = g
        self.has_halt = has_halt_rule
        self.pending = {}
        self.ctx = None

    def __call__(self, kind, agent, payload):
        ctx = self.ctx
        if ctx is None or ctx.sim is None:
            return
        sim = ctx.sim
        if kind in ("consult", "hook:order-before", "hook:cancel-before") or \
                (kind == "log-direct" and isinstance(payload, MarketStepEndLog)):
            for mid in list(self.pending):
                m = sim.id2market[mid]
                del self.pending[mid]
                if self.has_halt and (not m.is_running or not sim.current_session.with_order_execution):
                    continue          # a halt is in force (pams suspends matching session-wide while it lasts)
                _Monitors(self.g, ("C03",)).check_uncrossed(m, tag="C09.no-round-after-acceptance")
                self.g.note("round-checked")
        if kind in ("submitted", "canceled"):
            sess = sim.current_session
            if sess is not None and ctx.declared_exec.get(sess.session_id):
                self.pending[payload.market_id] = True


class C09_SessionRules(SessionRules):
    pass

import random, warnings, itertools, sys, time
sys.path.insert(0, "/tmp/probe")
from sx import Engine, SNum, SBool
import z3
from pams.market import Market
from pams.logs import Logger
from pams.order import Order, Cancel, LIMIT_ORDER, MARKET_ORDER
warnings.simplefilter("ignore")
class _Sim: pass
class Rec(Logger):
    def __init__(self): super().__init__(); self.seq = []
    def write(self, log): self.seq.append(log)
    def bulk_write(self, logs): pass   # (D2 duplicate ignored here)

def make(ops):
    """ops: tuple of ('B'|'S'|'MB'|'MS') adds, ('C', i) cancel of i-th added order, 'T' tick"""
    def h(g):
        lg = Rec()
        m = Market(market_id=0, prng=random.Random(0), simulator=_Sim(), name="m", logger=lg)
        m.setup({"tickSize": 1, "marketPrice": 10}); m._update_time(next_fundamental_price=10); m._is_running = True
        orders = []; v0 = []; ttl = []; born = []
        for k, op in enumerate(ops):
            if op == 'T':
                m._update_time(next_fundamental_price=10); continue
            if op[0] == 'C':
                o = orders[op[1]]
                m._cancel_order(Cancel(order=o)); m._execution(); continue
            is_buy = op in ('B', 'MB'); mk = op in ('MB', 'MS')
            v = g.fresh_int(f"v{k}", 1, 100); t = g.fresh_int(f"ttl{k}", 1, 1000)
            p = None if mk else g.fresh_int(f"p{k}", 1, 1000)
            o = Order(agent_id=0, market_id=0, is_buy=is_buy, kind=MARKET_ORDER if mk else LIMIT_ORDER, volume=v, price=p, ttl=t)
            orders.append(o); v0.append(v); ttl.append(t); born.append(m.get_time())
            m._add_order(o); m._execution()
        # oracle from log stream
        from pams.logs import OrderLog, ExecutionLog, CancelLog, ExpirationLog
        now = m.get_time()
        for i, o in enumerate(orders):
            oid = o.order_id
            filled = 0; terminal = None; term_time = None
            for lgx in lg.seq:
                if isinstance(lgx, ExecutionLog) and (lgx.buy_order_id == oid if o.is_buy else lgx.sell_order_id == oid):
                    assert terminal is None, "fill after terminal event"
                    assert lgx.time <= born[i] + ttl[i], "fill after ttl"
                    filled = filled + lgx.volume
                elif isinstance(lgx, (CancelLog, ExpirationLog)) and lgx.order_id == oid and lgx.is_buy == o.is_buy:
                    if terminal is None: terminal = lgx.volume
            book = m.get_buy_order_book() if o.is_buy else m.get_sell_order_book()
            resting = o.volume if terminal is None else 0
            if terminal is None:
                assert v0[i] == filled + o.volume
                # in book iff volume>0 and not expired
                if o.volume > 0:
                    expired = born[i] + ttl[i] < now
                    assert not expired, "expired order without terminal log"
            else:
                assert v0[i] == filled + terminal
    return h
N = int(sys.argv[1])
alphabet_add = ['B', 'S', 'MB', 'MS']
def gen(n, nadded=0):
    if n == 0: yield (); return
    for a in alphabet_add:
        for rest in gen(n - 1, nadded + 1): yield (a,) + rest
    for rest in gen(n - 1, nadded): yield ('T',) + rest
    for i in range(nadded):
        for rest in gen(n - 1, nadded): yield (('C', i),) + rest
t0 = time.time(); tp = tq = 0; cases = 0
for ops in gen(N):
    g = Engine(); res = g.explore(make(ops)); cases += 1; tp += g.paths; tq += g.queries
    if res:
        e, mdl = res[0]; print("VIOLATION", ops, type(e).__name__, e, sorted((str(d), mdl[d]) for d in mdl.decls())); break
print(f"N={N} cases={cases} paths={tp} queries={tq} wall={time.time()-t0:.1f}")

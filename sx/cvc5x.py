"""Re-discharge of assertion obligations with cvc5 (second solver, thorough tier of the function-level
harnesses): every obligation that z3 proved by a real query (not by simplification) is written out as SMT-LIB2
together with the path condition and handed to the cvc5 binary; `unsat` = agreement."""
import os
import subprocess
import tempfile

import z3

CVC5 = "/usr/bin/cvc5"


class Cvc5Recheck:
    def __init__(self, limit=400, timeout_s=20):
        self.n = self.agree = self.unknown = 0
        self.disagree = []
        self.limit = limit
        self.timeout_s = timeout_s
        self.errors = 0

    def __call__(self, engine, obligation, tag):
        if self.n >= self.limit:
            return
        self.n += 1
        s2 = z3.Solver()
        s2.add(engine.solver.assertions())
        s2.add(z3.Not(obligation))
        txt = "(set-logic ALL)\n" + s2.to_smt2()
        with tempfile.NamedTemporaryFile("w", suffix=".smt2", delete=False, dir="/tmp") as f:
            f.write(txt)
            path = f.name
        try:
            r = subprocess.run([CVC5, "--lang", "smt2", f"--tlimit={self.timeout_s * 1000}", path],
                               capture_output=True, text=True, timeout=self.timeout_s + 5)
            out = (r.stdout + r.stderr).strip()
        except subprocess.TimeoutExpired:
            out = "timeout"
        finally:
            os.unlink(path)
        first = out.splitlines()[0] if out else ""
        if "(error" in out:
            self.errors += 1
            self.unknown += 1
        elif first == "unsat":
            self.agree += 1
        elif first == "sat":
            self.disagree.append(tag)
        else:
            self.unknown += 1

    def summary(self):
        return {"obligations_rechecked": self.n, "cvc5_unsat": self.agree, "cvc5_unknown_or_unsupported": self.unknown,
                "cvc5_errors": self.errors, "cvc5_sat_disagreements": self.disagree[:5]}

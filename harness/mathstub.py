"""Contract stubs for math.log / math.exp (and friends) used when a pams module's `math` is replaced:
each call returns a fresh solver real constrained only by the documented contract (sign, strict
monotonicity and functional consistency against earlier calls).  Works with both engines: with the
concrete engine the values come from the replayed model (or random draws filtered by the contract)."""
import math

from sx import is_sym, sand, sor, snot


class MathStub:
    def __init__(self, g, tag="m", pairwise=True, signs=True):
        self.g = g
        self.tag = tag
        self.pairwise = pairwise     # relate every call to all earlier ones (monotone, functional)
        self.signs = signs           # sign of log(x) / position of exp(x) relative to 1
        self.logs = []     # (arg, value)
        self.exps = []
        self.calls = []    # ("log"|"exp", arg, value) in call order

    # things pams modules use from math that work on proxies as they are
    floor = staticmethod(math.floor)
    ceil = staticmethod(math.ceil)
    inf = math.inf
    nan = math.nan
    pi = math.pi
    e = math.e

    @staticmethod
    def isnan(x):
        return False if is_sym(x) else math.isnan(x)

    @staticmethod
    def isinf(x):
        return False if is_sym(x) else math.isinf(x)

    def _consistent(self, table, x, y):
        g = self.g
        if not self.pairwise:
            return
        for x2, y2 in table:
            g.assume(sand(sor(snot(x == x2), y == y2), sor(snot(x < x2), y < y2), sor(snot(x > x2), y > y2)))

    def log(self, x):
        g = self.g
        if not (x > 0):
            raise ValueError("math domain error")
        y = g.real(f"{self.tag}LOG{len(self.logs)}")
        if self.signs:
            g.assume(sand(sor(snot(x > 1), y > 0), sor(snot(x == 1), y == 0), sor(snot(x < 1), y < 0)))
        self._consistent(self.logs, x, y)
        for xe, ye in (self.exps if self.pairwise else []):      # exp(log(x)) == x  where both occur
            g.assume(sor(snot(xe == y), ye == x))
        self.logs.append((x, y))
        self.calls.append(("log", x, y))
        return y

    def exp(self, x):
        g = self.g
        y = g.real(f"{self.tag}EXP{len(self.exps)}")
        if self.signs:
            g.assume(sand(y > 0, sor(snot(x > 0), y > 1), sor(snot(x == 0), y == 1), sor(snot(x < 0), y < 1)))
        else:
            g.assume(y > 0)
        self._consistent(self.exps, x, y)
        for xl, yl in (self.logs if self.pairwise else []):
            g.assume(sor(snot(yl == x), y == xl))
        self.exps.append((x, y))
        self.calls.append(("exp", x, y))
        return y

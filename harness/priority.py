"""C02: comparison laws of the real Order operators (OrderLaws) and priority of fills after the book
was disturbed by cancels / expiries (HeapMaintenance)."""
import itertools

from pams.order import LIMIT_ORDER, MARKET_ORDER, Cancel, Order

from sx import sand, sor, snot
from sx.driver import Harness
from .common import RecLogger, mk_market, new_order, ranks_before, tick, PRICE_HI, VOL_HI


class OrderLaws(Harness):
    name = "OrderLaws"
    title = "strict-total-order laws of Order.__lt__/__gt__/__eq__/__le__/__ge__ on three accepted orders"
    what_symbolic = "prices (unbounded ints >= 0), acceptance times (unbounded >= 0), ids (unbounded, distinct)"
    nontrivial_event = "every path (each compares three orders pairwise)"
    bounds = {"quick": "3 orders of one side, all 8 limit/market kind patterns, both sides (the side as a bool, and for two "
                       "patterns as an int or a numpy.bool_); numeric values unbounded",
              "thorough": "same (the numeric space is already unbounded)"}
    reach = ("nontrivial", "tie-price", "tie-time")
    agreement_runs = 16

    def cases(self, tier):
        out = [{"is_buy": b, "kinds": "".join(k)} for b in (True, False)
               for k in itertools.product("01", repeat=3)]
        # the side given by a truthy / falsy value that is not the bool singleton (an int, a numpy.bool_)
        out += [{"is_buy": b, "kinds": k, "flag": f} for b in (True, False) for k in ("000", "010") for f in ("int", "numpy")]
        # kind (and price) rewritten after construction, before acceptance -- what a before-order hook such as the
        # order-mistake shock does: the order ranks as what it is when it is accepted
        out += [{"is_buy": b, "kinds": k, "rewritten": True} for b in (True, False) for k in ("000", "010", "100", "110")]
        return out

    def run(self, g, case):
        os_, recs = [], []
        side = case["is_buy"]
        if case.get("flag") == "int":
            side = int(side)
        elif case.get("flag") == "numpy":
            import numpy
            side = numpy.bool_(side)
        for i in range(3):
            mk = case["kinds"][i] == "1"
            p = None if mk else g.int(f"p{i}", 0, None)
            t = g.int(f"t{i}", 0, None)
            oid = g.int(f"id{i}", 0, None)
            if case.get("rewritten"):
                # constructed as the other kind, then rewritten
                o = Order(agent_id=0, market_id=0, is_buy=side, kind=LIMIT_ORDER if mk else MARKET_ORDER,
                          volume=1, price=(g.int(f"q{i}", 0, None) if mk else None), placed_at=t, order_id=oid)
                o.kind = MARKET_ORDER if mk else LIMIT_ORDER
                o.price = p
            else:
                o = Order(agent_id=0, market_id=0, is_buy=side, kind=MARKET_ORDER if mk else LIMIT_ORDER,
                          volume=1, price=p, placed_at=t, order_id=oid)
            os_.append(o)
            recs.append({"is_buy": case["is_buy"], "is_market": mk, "price": p, "time": t, "id": oid})
        for i in range(3):
            for j in range(i + 1, 3):
                g.assume(recs[i]["id"] != recs[j]["id"])
        g.note("nontrivial")
        lt = {}
        for i in range(3):
            for j in range(3):
                if i == j:
                    continue
                a, b = os_[i], os_[j]
                l_ = a < b
                gt_ = b > a
                lt[i, j] = l_
                g.observe(l_)
                ref = ranks_before(recs[i], recs[j])
                g.require(ref if l_ else snot(ref), "C02.lt-agrees-with-ranking",
                          f"order{i} < order{j} is {l_} but the ranking says otherwise")
                g.require(gt_ == l_, "C02.gt-is-converse-of-lt")
                e = a == b
                g.require(not e, "C02.eq-false-for-distinct-orders")
                g.require((a != b) is True, "C02.ne-true-for-distinct-orders")
                g.require((a <= b) == l_, "C02.le-consistent")
                g.require((b >= a) == l_, "C02.ge-consistent")
                if not recs[i]["is_market"] and not recs[j]["is_market"]:
                    if recs[i]["price"] == recs[j]["price"]:
                        g.note("tie-price")
                        if recs[i]["time"] == recs[j]["time"]:
                            g.note("tie-time")
        for i in range(3):
            for j in range(i + 1, 3):
                g.require(lt[i, j] != lt[j, i], "C02.trichotomy", "neither or both of a<b, b<a")
        for i, j, k in itertools.permutations(range(3), 3):
            if lt[i, j] and lt[j, k]:
                g.require(lt[i, k], "C02.transitive")
        for o in os_:
            g.require((o == o) is True and not (o < o) and not (o > o), "C02.irreflexive")


class HeapMaintenance(Harness):
    """K resting orders on one side; cancels / clock ticks (expiries) / partial rounds disturb the
    book; then a counter order sweeps it in one real round: fills must follow the reference ranking."""
    name = "HeapMaintenance"
    title = "fills follow price-time priority after cancels, expiries and earlier rounds re-shaped the book"
    what_symbolic = ("limit prices, volumes, time-to-live, price and volume of the counter orders; which order "
                     "is cancelled and the op sequence are the case split")
    nontrivial_event = "a round filled at least two resting orders"
    bounds = {
        "quick": "K <= 3 resting orders on one side (all limit/market mixes) with one disturbing op (cancel any "
                 "order / clock tick with symbolic ttl in [1,3] / counter order + round), two ops for K = 2 and "
                 "for K = 3 limit orders, K = 4 limit orders with one cancel or tick; K = 5 with three market orders in "
                 "every arrival pattern (unit volumes); then a sweeping counter order (limit with symbolic price, or market)",
        "thorough": "K <= 4 with up to 2 ops, all kind mixes for K <= 3, plus K = 5,6,7 limit orders of volume 1 "
                    "and pairwise distinct prices with one op (cancel of any order, or a one-lot counter order + round; for K = 7 the cancels on the sell "
                    "side and the partial round on the buy side) before a limit sweep for K lots at a solver-chosen price",
    }
    reach = ("nontrivial", "cancel-nonbest", "expired-some")
    agreement_runs = 16
    props = ("C02",)

    wide_thorough = True     # thorough tier widens the shallow books (K <= 4, two ops, all kind mixes)

    def cases(self, tier):
        out = []
        wide = tier == "thorough" and self.wide_thorough
        for is_buy in (True, False):
            for K in (2, 3, 4):
                kind_sets = list(itertools.product("01", repeat=K)) if K <= 3 else [tuple("0" * K)]
                alphabet = [["C", i] for i in range(K)] + ["T", "R"]
                for kinds in kind_sets:
                    limit_only = "1" not in kinds
                    ops_sets = [[]] + [[a] for a in alphabet]
                    if wide or (K == 3 and limit_only) or K == 2:
                        ops_sets += [[a, b] for a in alphabet for b in alphabet if not (a == b and a[0] == "C")]
                    for ops in ops_sets:
                        for sm in (False, True):
                            if sm and limit_only and K >= 3:
                                continue   # market sweep of a limit-only book adds nothing over the limit sweep
                            if not wide and K == 4 and ops and ops[0] == "R":
                                continue
                            out.append({"is_buy": is_buy, "K": K, "kinds": "".join(kinds), "ops": ops,
                                        "deep": False, "sweep_market": sm})
            # five resting orders of which three are market orders (they rest while the other side is empty), every
            # arrival pattern, unit volumes; then the sweep
            for pos in itertools.combinations(range(5), 3):
                for sv in (2, 4):
                    out.append({"is_buy": is_buy, "K": 5, "kinds": "".join("1" if i in pos else "0" for i in range(5)),
                                "ops": [], "deep": True, "sweep_market": False, "sweep_volume": sv})
            # five and six resting limit orders in any arrival order, nothing in between, then the sweep (a book that
            # only ever saw insertions)
            for K in (5, 6):
                out.append({"is_buy": is_buy, "K": K, "kinds": "0" * K, "ops": [], "deep": True, "sweep_market": False})
            if tier == "thorough":
                for K in (5, 6, 7):
                    ops = [["C", i] for i in range(K)] + ["R"]
                    if K == 7:
                        # 7 resting orders: ~40k paths per case; sells take the cancels, buys the partial round
                        ops = ["R"] if is_buy else [["C", i] for i in range(K)]
                    for op in ops:
                        out.append({"is_buy": is_buy, "K": K, "kinds": "0" * K, "ops": [op], "deep": True,
                                    "sweep_market": False})
        return out

    def _check_best(self, g, m, recs, is_buy):
        """C08: the best quote describes the current book (the live order that ranks first)."""
        live_ = [r for r in recs if not r["dead"] and r["filled"] != r["volume"]]
        got = m.get_best_buy_price() if is_buy else m.get_best_sell_price()
        if not live_:
            g.require(got is None, "C08.best-price")
            return
        b = live_[0]
        for r in live_[1:]:
            if bool(ranks_before(r, b)):
                b = r
        if b["is_market"]:
            g.require(got is None, "C08.best-price")
        else:
            g.require(got is not None and got == b["price"], "C08.best-price",
                      "best quote differs from the best live order's price")
        g.note("best-checked")
        g.note("nontrivial")

    def _round(self, g, m, recs, is_buy, tag, market, volume=None):
        """submit a counter order and run one real round; check the fills against the ranking."""
        live = [r for r in recs if not r["dead"] and r["left"] is not None]
        sv = volume if volume is not None else g.int(f"cv_{tag}", 1, VOL_HI * 8)
        co = new_order(g, f"c{tag}", is_buy=not is_buy, market=market, volume=sv)
        clog = m._add_order(co)
        logs = m._execution()
        got = {r["id"]: 0 for r in recs}
        for x in logs:
            rid = x.buy_order_id if is_buy else x.sell_order_id
            g.observe(rid)
            g.observe(x.volume)
            if rid in got:
                got[rid] = got[rid] + x.volume
        if len(logs) >= 2:
            g.note("nontrivial")
        if "C01" in self.props:
            byid = {r["id"]: r for r in recs}
            for x in logs:
                r = byid.get(x.buy_order_id if is_buy else x.sell_order_id)
                g.require(x.price == logs[0].price, "C01.one-price-per-round")
                if r is not None and not r["is_market"]:
                    g.require(x.price <= r["price"] if is_buy else x.price >= r["price"],
                              "C01.price<=buy-limit" if is_buy else "C01.price>=sell-limit",
                              "a resting order was filled at a price beyond its limit")
                if not market:
                    g.require(x.price >= co.price if is_buy else x.price <= co.price,
                              "C01.price>=sell-limit" if is_buy else "C01.price<=buy-limit",
                              "the incoming order was filled at a price beyond its limit")
        if "C02" in self.props:
            for a in recs:
                for o in recs:
                    if a is o or a["dead"] or o["dead"]:
                        continue
                    full = (a["filled"] + got[a["id"]]) == a["volume"]
                    g.require(sor(snot(got[o["id"]] > 0), snot(ranks_before(a, o)), full), "C02.priority",
                              f"order {o['id']} filled while higher-priority order {a['id']} keeps volume")
        for r in recs:
            r["filled"] = r["filled"] + got[r["id"]]
        if "C03" in self.props:
            from .matching import _Monitors
            _Monitors(g, ("C03",)).check_uncrossed(m)
        # the counter order may rest afterwards; take it out again so that the next round starts clean
        m._cancel_order(Cancel(order=co))

    def run(self, g, case):
        lg = RecLogger()
        is_buy = case["is_buy"]
        m = mk_market(tick=1, price=300, logger=lg, running=True)
        K = case["K"]
        with_ttl = "T" in case["ops"]
        recs, orders = [], []
        for i in range(K):
            mk = case["kinds"][i] == "1"
            ttl = g.int(f"ttl{i}", 1, 3) if with_ttl else None
            # deep books: concrete volumes (1 lot; 2 lots when a partial round precedes the sweep so that the round
            # leaves the top order in place)
            dv = 2 if case["ops"] == ["R"] else 1
            o = new_order(g, str(i), is_buy=is_buy, market=mk, ttl=ttl, volume=dv if case["deep"] else None)
            vol, price = o.volume, o.price
            if case["deep"]:
                # deep books: pairwise distinct prices (price ties are covered by the books of <= 4 orders; with ties
                # the 7-order space is ~10x larger)
                for r0 in recs:
                    if price is not None and r0["price"] is not None:
                        g.assume(price != r0["price"])
            log = m._add_order(o)
            m._execution()
            orders.append(o)
            recs.append({"id": log.order_id, "is_buy": is_buy, "is_market": mk, "price": price,
                         "time": m.get_time(), "volume": vol, "ttl": ttl, "dead": False, "filled": 0,
                         "left": True})
        for k, op in enumerate(case["ops"]):
            if op == "T":
                tick(m)
                for r in recs:
                    if r["ttl"] is not None and not r["dead"] and r["time"] + r["ttl"] < m.get_time():
                        r["dead"] = True
                        g.note("expired-some")
            elif op == "R":
                # deep books: a round that takes exactly one lot (touches only the top of the book)
                self._round(g, m, recs, is_buy, f"r{k}", market=False, volume=1 if case["deep"] else None)
            elif op == "CB":
                # cancel the order that ranks first among the live ones (by the reference ranking)
                live_ = [(j, r) for j, r in enumerate(recs) if not r["dead"]]
                if live_:
                    bj = live_[0][0]
                    for j, r in live_[1:]:
                        if bool(ranks_before(r, recs[bj])):
                            bj = j
                    m._cancel_order(Cancel(order=orders[bj]))
                    m._execution()
                    recs[bj]["dead"] = True
                    g.note("cancel-best")
            else:
                i = op[1]
                best = m.buy_order_book.get_best_order() if is_buy else m.sell_order_book.get_best_order()
                if best is not orders[i] and not recs[i]["dead"]:
                    g.note("cancel-nonbest")
                m._cancel_order(Cancel(order=orders[i]))
                m._execution()
                recs[i]["dead"] = True
            if "C08" in self.props:
                self._check_best(g, m, recs, is_buy)
        if "C08" in self.props:
            return
        vol = (K if case["ops"] != ["R"] else 2 * K - 1) if case["deep"] else None
        self._round(g, m, recs, is_buy, "x", market=case.get("sweep_market", False), volume=case.get("sweep_volume", vol))


class DeepHeap(Harness):
    """Deep one-sided books (8-12 resting orders) at no exploration cost for the build-up: the i-th order is
    assumed no better than the order at heap position parent(i), so every heappush keeps it where it lands
    (no comparison forks) -- and every heap-ordered layout is produced this way, by pushing in array order.
    Then one disturbing operation and a sweep of a few lots; the forks are those of the pops only."""
    name = "DeepHeap"
    title = "priority / prices of fills on deep books (8-12 resting orders) after a partial round or a cancel"
    what_symbolic = ("limit prices of the resting orders (any heap-ordered, pairwise distinct assignment), price of the "
                     "sweeping order; depth, side, the disturbing operation and the sweep size are the case split")
    nontrivial_event = "the sweep filled at least two resting orders"
    bounds = {"quick": "K in {7, 8} resting limit orders on one side, heap-ordered distinct prices; one operation (one-lot "
                       "round against the top, or cancel of the order at heap position i >= 1) then a limit sweep of 5 lots",
              "thorough": "K = 7..12 (for 11 and 12: the round, and cancels at heap positions 1,3,4,5,6)"}
    reach = ("nontrivial",)
    props = ("C02",)
    agreement_runs = 6
    assumptions = ("DeepHeap: prices are assumed heap-ordered along the arrival order (order i no better than order "
                   "(i-1)//2) and pairwise distinct; all orders arrive at one time step",)

    def cases(self, tier):
        out = []
        # which slot the last heap entry moves into (and from which subtree) depends on the parity and size of the
        # book, so consecutive depths are all needed
        for K in ((7, 8) if tier == "quick" else (7, 8, 9, 10, 11, 12)):
            for is_buy in (True, False):
                ops = ["R"] + [["C", i] for i in range(1, K)]
                if K >= 11:
                    ops = ["R"] + [["C", i] for i in (1, 3, 4, 5, 6)]      # inner heap positions
                for op in ops:
                    out.append({"K": K, "is_buy": is_buy, "op": op, "sweep": 5})
        return out

    def run(self, g, case):
        lg = RecLogger()
        is_buy, K = case["is_buy"], case["K"]
        m = mk_market(tick=1, price=300, logger=lg, running=True)
        recs, orders = [], []
        vol = 2 if case["op"] == "R" else 1
        for i in range(K):
            p = g.int(f"p{i}", 1, PRICE_HI)
            if i > 0:
                par = recs[(i - 1) // 2]["price"]
                g.assume(p < par if is_buy else p > par)
                for r0 in recs:
                    g.assume(p != r0["price"])
            o = new_order(g, str(i), is_buy=is_buy, price=p, volume=vol)
            log = m._add_order(o)
            m._execution()
            orders.append(o)
            recs.append({"id": log.order_id, "is_buy": is_buy, "is_market": False, "price": p, "time": m.get_time(),
                         "volume": vol, "dead": False, "filled": 0, "left": True, "ttl": None})
        hm = HeapMaintenance()
        hm.props = self.props
        if case["op"] == "R":
            hm._round(g, m, recs, is_buy, "r", market=True, volume=1)
        else:
            i = case["op"][1]
            m._cancel_order(Cancel(order=orders[i]))
            m._execution()
            recs[i]["dead"] = True
        if "C08" in self.props:
            hm._check_best(g, m, recs, is_buy)
        # the sweep: a limit order at a solver-chosen price for `sweep` lots
        hm._round(g, m, recs, is_buy, "x", market=False, volume=case["sweep"] * vol - (1 if case["op"] == "R" else 0))


class C02_DeepHeap(DeepHeap):
    pass


class C01_DeepHeap(DeepHeap):
    props = ("C01",)


class C03_DeepHeap(DeepHeap):
    props = ("C03",)


class C02_OrderLaws(OrderLaws):
    pass


class C02_HeapMaintenance(HeapMaintenance):
    pass


class C03_HeapMaintenance(HeapMaintenance):
    props = ("C03",)
    wide_thorough = False
    reach = ("nontrivial", "cancel-nonbest", "expired-some", "post:uncrossed-two-sided")


class C01_HeapMaintenance(HeapMaintenance):
    props = ("C01",)
    wide_thorough = False     # the wide shallow space is explored under C02; C01 adds the deep books only
    reach = ("nontrivial", "cancel-nonbest")


class C08_HeapMaintenance(HeapMaintenance):
    """best bid / ask after cancels and expiries re-shaped the book (deep books in the thorough tier)"""
    props = ("C08",)
    wide_thorough = False
    reach = ("best-checked", "cancel-nonbest")

    def cases(self, tier):
        out = [c for c in super().cases(tier) if not c["sweep_market"] and "R" not in c["ops"] and not c["deep"]]
        if tier == "thorough":
            for is_buy in (True, False):
                for K in (6, 7):
                    for i in range(K):
                        out.append({"is_buy": is_buy, "K": K, "kinds": "0" * K, "ops": [["C", i], "CB", "CB"], "deep": True,
                                    "sweep_market": False})
        return out

"""SX — a small dynamic symbolic executor for running the *real* pams modules on proxy numbers.

Values are proxies (SInt / SReal / SBool) wrapping z3 terms.  Every Python-level branch on a proxy
(`if a < b`, `min`, `sorted`, `heapq`, dict lookup through `__eq__`, list index through `__index__`)
ends in `Engine.branch`, which asks z3 which sides are feasible under the path condition and records
a decision.  `Engine.explore` re-executes the harness once per feasible decision sequence (depth
first over decision prefixes).  Exhausting the decision tree is the verdict "holds for every value
inside the declared ranges"; an uncaught exception or a refuted `require` on a feasible path is a
counterexample candidate with a model.

Python `int` is a z3 Int (mathematical integer), Python `float` is a z3 Real (exact real; concrete
doubles are lifted with their exact rational value).  Nothing here knows anything about pams.
"""
import fractions
import math
import numbers
import os
import time
import traceback

_perf_counter = time.perf_counter      # bound early: harnesses may stub the time module
_now = time.time

import z3

__all__ = [
    "Engine", "ConcreteEngine", "PinnedEngine", "SInt", "SReal", "SBool", "SNum", "SFloat",
    "Infeasible", "Inconclusive", "Violation", "Failure", "is_sym", "sand", "sor", "snot", "ite",
    "smin", "smax", "sabs", "to_py", "aeq",
]


class Infeasible(BaseException):
    """The current path contradicts an assumption: abandon it silently."""


class Inconclusive(BaseException):
    """The solver answered unknown (or timed out): the path cannot be decided."""


class PathLimit(BaseException):
    """Per-path decision budget exceeded (treated as a failure: possible non-termination)."""


class Violation(AssertionError):
    """An oracle obligation was refuted.  `tag` is a stable identifier of the failing predicate."""

    def __init__(self, tag, message=""):
        super().__init__(f"[{tag}] {message}")
        self.tag = tag
        self.message = message


class Failure:
    """A counterexample candidate: what failed, and the values under which it failed."""

    def __init__(self, tag, message, values, exc_type, where, trace):
        self.tag = tag
        self.message = message
        self.values = values          # {var name: python value (int | Fraction | bool)}
        self.exc_type = exc_type
        self.where = where            # innermost frame inside the code under test
        self.trace = trace            # short textual traceback

    def as_dict(self):
        return {
            "tag": self.tag, "message": self.message, "exc_type": self.exc_type,
            "where": self.where, "trace": self.trace,
            "values": {k: _jsonable(v) for k, v in self.values.items()},
        }


def _jsonable(v):
    if isinstance(v, fractions.Fraction):
        if v.denominator == 1:
            return int(v)
        return {"num": v.numerator, "den": v.denominator}
    return v


def _unjson(v):
    if isinstance(v, dict) and "num" in v:
        return fractions.Fraction(v["num"], v["den"])
    return v


# ------------------------------------------------------------------------------------------------
# lifting

_INT = z3.IntSort()
_REAL = z3.RealSort()


def _lift(x):
    """python number / proxy -> z3 arithmetic term, or None if x is not a number."""
    if isinstance(x, SNum):
        return x.e
    if isinstance(x, SBool):
        return z3.If(x.e, z3.IntVal(1), z3.IntVal(0))
    if isinstance(x, bool):
        return z3.IntVal(int(x))
    if isinstance(x, int):
        return z3.IntVal(x)
    if isinstance(x, float):
        if x != x or x in (math.inf, -math.inf):
            raise NonFinite(x)
        if x.is_integer():
            return z3.RealVal(int(x))
        fr = fractions.Fraction(x)
        return z3.Q(fr.numerator, fr.denominator)
    if isinstance(x, fractions.Fraction):
        return z3.Q(x.numerator, x.denominator)
    if isinstance(x, numbers.Integral):   # numpy ints
        return z3.IntVal(int(x))
    if isinstance(x, numbers.Real):       # numpy floats that are not float subclasses
        return _lift(float(x))
    return None


class NonFinite(Exception):
    """inf / nan met a proxy operation; handled by the comparison operators only."""

    def __init__(self, x):
        super().__init__(repr(x))
        self.x = x


def _real(e):
    return z3.ToReal(e) if e.sort() == _INT else e


def _wrap(g, e):
    return SReal(g, e) if e.sort() == _REAL else SInt(g, e)


def is_sym(x):
    return isinstance(x, (SNum, SBool, SFloat))


class SBool:
    """symbolic truth value; `bool(x)` forks."""
    __slots__ = ("g", "e")

    def __init__(self, g, e):
        self.g = g
        self.e = e

    def __copy__(self):
        return self

    def __deepcopy__(self, memo):
        return self          # immutable value; never copy the engine behind it

    def __bool__(self):
        return self.g.branch(self.e)

    def __invert__(self):
        return SBool(self.g, z3.Not(self.e))

    def __and__(self, o):
        return SBool(self.g, z3.And(self.e, _lb(o)))

    __rand__ = __and__

    def __or__(self, o):
        return SBool(self.g, z3.Or(self.e, _lb(o)))

    __ror__ = __or__

    def __hash__(self):
        return 0

    def __eq__(self, o):
        if isinstance(o, (SBool, bool)):
            return SBool(self.g, self.e == _lb(o))
        if isinstance(o, (int, SNum)):
            return SInt(self.g, _lift(self)) == o
        return False

    def __ne__(self, o):
        r = self.__eq__(o)
        return (~r) if isinstance(r, SBool) else (not r)

    # arithmetic: True == 1
    def _num(self):
        return SInt(self.g, _lift(self))

    def __add__(self, o): return self._num() + o
    def __radd__(self, o): return o + self._num()
    def __sub__(self, o): return self._num() - o
    def __rsub__(self, o): return o - self._num()
    def __mul__(self, o): return self._num() * o
    def __rmul__(self, o): return o * self._num()
    def __index__(self): return 1 if bool(self) else 0
    def __int__(self): return 1 if bool(self) else 0
    def __repr__(self): return f"SBool({self.e})"


def _lb(x):
    if isinstance(x, SBool):
        return x.e
    if isinstance(x, bool):
        return z3.BoolVal(x)
    if isinstance(x, SNum):
        return x.e != 0
    return z3.BoolVal(bool(x))


class SNum:
    __slots__ = ("g", "e")

    def __init__(self, g, e):
        self.g = g
        self.e = e

    def __copy__(self):
        return self

    def __deepcopy__(self, memo):
        return self          # immutable value; never copy the engine behind it

    # ---- helpers
    def _bin(self, o, f, r=False):
        try:
            oe = _lift(o)
        except NonFinite as nf:
            return NotImplemented
        if oe is None:
            return NotImplemented
        a, b = (oe, self.e) if r else (self.e, oe)
        if a.sort() != b.sort():
            a, b = _real(a), _real(b)
        return _wrap(self.g, f(a, b))

    def _cmp(self, o, f, inf_lt, inf_gt):
        """inf_lt / inf_gt: python result when o is -inf / +inf."""
        try:
            oe = _lift(o)
        except NonFinite as nf:
            if nf.x != nf.x:
                return False
            return inf_gt if nf.x > 0 else inf_lt
        if oe is None:
            return NotImplemented
        a, b = self.e, oe
        if a.sort() != b.sort():
            a, b = _real(a), _real(b)
        return SBool(self.g, f(a, b))

    # ---- arithmetic
    def __add__(self, o): return self._bin(o, lambda a, b: a + b)
    def __radd__(self, o): return self._bin(o, lambda a, b: a + b, True)
    def __sub__(self, o): return self._bin(o, lambda a, b: a - b)
    def __rsub__(self, o): return self._bin(o, lambda a, b: a - b, True)
    def __mul__(self, o): return self._bin(o, lambda a, b: a * b)
    def __rmul__(self, o): return self._bin(o, lambda a, b: a * b, True)
    def __neg__(self): return type(self)(self.g, -self.e)
    def __pos__(self): return self

    def _div(self, o, r=False):
        try:
            oe = _lift(o)
        except NonFinite:
            return NotImplemented
        if oe is None:
            return NotImplemented
        a, b = (oe, self.e) if r else (self.e, oe)
        if self.g.branch(b == 0):
            raise ZeroDivisionError("division by zero")
        return SReal(self.g, _real(a) / _real(b))

    def __truediv__(self, o): return self._div(o)
    def __rtruediv__(self, o): return self._div(o, True)

    def _floordiv(self, o, r=False, mod=False):
        try:
            oe = _lift(o)
        except NonFinite:
            return NotImplemented
        if oe is None:
            return NotImplemented
        a, b = (oe, self.e) if r else (self.e, oe)
        if self.g.branch(b == 0):
            raise ZeroDivisionError("integer division or modulo by zero")
        if a.sort() == _INT and b.sort() == _INT:
            if z3.is_int_value(b) and b.as_long() > 0:
                q = a / b            # z3 Int division == floor for positive divisors
                return SInt(self.g, (a % b) if mod else q)
            q = z3.ToInt(z3.ToReal(a) / z3.ToReal(b))   # floor
            return SInt(self.g, (a - b * q) if mod else q)
        ar, br = _real(a), _real(b)
        q = z3.ToInt(ar / br)
        if mod:
            return SReal(self.g, ar - br * z3.ToReal(q))
        return SReal(self.g, z3.ToReal(q))

    def __floordiv__(self, o): return self._floordiv(o)
    def __rfloordiv__(self, o): return self._floordiv(o, True)
    def __mod__(self, o): return self._floordiv(o, mod=True)
    def __rmod__(self, o): return self._floordiv(o, True, mod=True)

    def __pow__(self, o):
        if isinstance(o, int) and not isinstance(o, bool) and 0 <= o <= 4:
            r = 1
            for _ in range(o):
                r = r * self
            return r
        return NotImplemented

    def __abs__(self):
        return type(self)(self.g, z3.If(self.e >= 0, self.e, -self.e))

    # ---- comparison
    def __lt__(self, o): return self._cmp(o, lambda a, b: a < b, False, True)
    def __le__(self, o): return self._cmp(o, lambda a, b: a <= b, False, True)
    def __gt__(self, o): return self._cmp(o, lambda a, b: a > b, True, False)
    def __ge__(self, o): return self._cmp(o, lambda a, b: a >= b, True, False)

    def __eq__(self, o):
        if o is None:
            return False
        r = self._cmp(o, lambda a, b: a == b, False, False)
        return False if r is NotImplemented else r

    def __ne__(self, o):
        if o is None:
            return True
        r = self._cmp(o, lambda a, b: a != b, True, True)
        return True if r is NotImplemented else r

    def __hash__(self):
        return 0

    def __bool__(self):
        return self.g.branch(self.e != 0)

    def __float__(self):
        raise TypeError("symbolic number cannot be turned into a machine float (C-level read)")

    def __repr__(self):
        return f"{type(self).__name__}({self.e})"

    __str__ = __repr__

    def __format__(self, spec):
        return repr(self)


class SInt(SNum):
    __slots__ = ()

    def __index__(self):
        return self.g.realize(self.e)

    __int__ = __index__

    def __floor__(self): return self
    def __ceil__(self): return self
    def __trunc__(self): return self
    def __round__(self, n=None): return self


class SReal(SNum):
    __slots__ = ()

    def __floor__(self):
        return SInt(self.g, z3.ToInt(self.e))

    def __ceil__(self):
        return SInt(self.g, -z3.ToInt(-self.e))

    def __trunc__(self):
        return SInt(self.g, z3.If(self.e >= 0, z3.ToInt(self.e), -z3.ToInt(-self.e)))

    def __int__(self):
        return self.g.realize(self.__trunc__().e)

    def __round__(self, n=None):
        if n is not None:
            # round-half-even to n decimal digits (exact reals)
            k = 10 ** int(n)
            return SReal(self.g, z3.ToReal((self * k).__round__().e)) / k
        f = z3.ToInt(self.e)
        d = self.e - z3.ToReal(f)
        half = z3.RealVal("1/2")
        return SInt(self.g, z3.If(d < half, f, z3.If(d > half, f + 1, z3.If(f % 2 == 0, f, f + 1))))

    def is_integer(self):
        return SBool(self.g, z3.ToReal(z3.ToInt(self.e)) == self.e)


_F64 = z3.Float64()
_RNE = z3.RNE()


def _lift_fp(x):
    if isinstance(x, SFloat):
        return x.e
    if isinstance(x, bool):
        return None
    if isinstance(x, (int, float)):
        return z3.FPVal(float(x), _F64)
    return None


class SFloat:
    """IEEE-754 binary64 value (round-to-nearest-even operations): used only for the loop-free kernels where
    rounding itself is the subject.  A plain python float met by an operation enters as the same double."""
    __slots__ = ("g", "e")

    def __init__(self, g, e):
        self.g = g
        self.e = e

    def __copy__(self):
        return self

    def __deepcopy__(self, memo):
        return self

    def _bin(self, o, f, r=False):
        oe = _lift_fp(o)
        if oe is None:
            return NotImplemented
        a, b = (oe, self.e) if r else (self.e, oe)
        return SFloat(self.g, f(_RNE, a, b))

    def __add__(self, o): return self._bin(o, z3.fpAdd)
    def __radd__(self, o): return self._bin(o, z3.fpAdd, True)
    def __sub__(self, o): return self._bin(o, z3.fpSub)
    def __rsub__(self, o): return self._bin(o, z3.fpSub, True)
    def __mul__(self, o): return self._bin(o, z3.fpMul)
    def __rmul__(self, o): return self._bin(o, z3.fpMul, True)
    def __truediv__(self, o): return self._bin(o, z3.fpDiv)
    def __rtruediv__(self, o): return self._bin(o, z3.fpDiv, True)
    def __neg__(self): return SFloat(self.g, z3.fpNeg(self.e))
    def __abs__(self): return SFloat(self.g, z3.fpAbs(self.e))

    def _cmp(self, o, f):
        oe = _lift_fp(o)
        if oe is None:
            return NotImplemented
        return SBool(self.g, f(self.e, oe))

    def __lt__(self, o): return self._cmp(o, z3.fpLT)
    def __le__(self, o): return self._cmp(o, z3.fpLEQ)
    def __gt__(self, o): return self._cmp(o, z3.fpGT)
    def __ge__(self, o): return self._cmp(o, z3.fpGEQ)

    def __eq__(self, o):
        r = self._cmp(o, z3.fpEQ)
        return False if r is NotImplemented else r

    def __ne__(self, o):
        r = self._cmp(o, z3.fpNEQ)
        return True if r is NotImplemented else r

    def __hash__(self):
        return 0

    def __float__(self):
        raise TypeError("symbolic double cannot be read by C code")

    def __repr__(self):
        return f"SFloat({self.e})"


def _fp_value(v):
    """z3 FP numeral -> python float (exact)."""
    if z3.is_fp_value(v):
        if v.isNaN():
            return float("nan")
        if v.isInf():
            return float("-inf") if v.isNegative() else float("inf")
        if v.isZero():
            return -0.0 if v.isNegative() else 0.0
        sgn = -1 if v.isNegative() else 1
        frac = fractions.Fraction(v.significand_as_long(), 1 << 52)
        if v.isSubnormal():
            return float(sgn * frac * fractions.Fraction(1, 1 << 1022))
        e = v.exponent_as_long(False)
        scale = fractions.Fraction(2) ** e if e >= 0 else fractions.Fraction(1, 2 ** (-e))
        return float(sgn * (1 + frac) * scale)
    raise ValueError(f"not an FP numeral: {v}")


# ---- non-forking helpers for oracles ------------------------------------------------------------

def _eng(*xs):
    for x in xs:
        if isinstance(x, (SNum, SBool)):
            return x.g
    return None


def sand(*xs):
    g = _eng(*xs)
    if g is None:
        return all(xs)
    return SBool(g, z3.And(*[_lb(x) for x in xs]))


def sor(*xs):
    g = _eng(*xs)
    if g is None:
        return any(xs)
    return SBool(g, z3.Or(*[_lb(x) for x in xs]))


def snot(x):
    if isinstance(x, SBool):
        return ~x
    return not x


def ite(c, a, b):
    """non-forking if-then-else on numbers"""
    g = _eng(c, a, b)
    if g is None:
        return a if c else b
    if not isinstance(c, SBool):
        return a if c else b
    ae, be = _lift(a), _lift(b)
    if ae.sort() != be.sort():
        ae, be = _real(ae), _real(be)
    return _wrap(g, z3.If(c.e, ae, be))


def smin(a, b):
    return ite(a <= b, a, b) if is_sym(a) or is_sym(b) else min(a, b)


def smax(a, b):
    return ite(a >= b, a, b) if is_sym(a) or is_sym(b) else max(a, b)


def sabs(a):
    return abs(a)


def aeq(a, b, rel=1e-9):
    """equality for oracles over quotients: exact on proxies (exact reals), tolerant to the rounding of
    CPython floats when the harness is replayed concretely."""
    if is_sym(a) or is_sym(b):
        return a == b
    if isinstance(a, float) or isinstance(b, float):
        return abs(a - b) <= rel * max(abs(a), abs(b), 1)
    return a == b


def to_py(model, x):
    """evaluate a proxy / python value under a model -> python int | Fraction | bool"""
    if isinstance(x, SBool):
        return z3.is_true(model.eval(x.e, model_completion=True))
    if isinstance(x, (SNum, SFloat)):
        v = model.eval(x.e, model_completion=True)
        return _val(v)
    return x


def _val(v):
    if z3.is_fp_value(v):
        return _fp_value(v)
    if z3.is_int_value(v):
        return v.as_long()
    if z3.is_rational_value(v):
        return fractions.Fraction(v.numerator_as_long(), v.denominator_as_long())
    if z3.is_algebraic_value(v):
        return fractions.Fraction(v.approx(30).numerator_as_long(), v.approx(30).denominator_as_long())
    if z3.is_true(v):
        return True
    if z3.is_false(v):
        return False
    raise ValueError(f"cannot convert model value {v}")


# ------------------------------------------------------------------------------------------------

class Engine:
    symbolic = True

    def __init__(self, query_timeout_ms=20000, max_decisions=4000, code_roots=()):
        self.solver = z3.Solver()
        # the per-query budget is a deterministic resource limit (about 2-4 million units per CPU second), so a
        # busy machine cannot turn a decidable query into "unknown"; the wall-clock timeout is only a backstop
        self.solver.set("rlimit", int(query_timeout_ms) * 3000)
        self.solver.set("timeout", int(query_timeout_ms) * 15)
        self.prefix = []
        self.trace = []
        self.model = None
        self.vars = {}
        self.max_decisions = max_decisions
        self.code_roots = tuple(code_roots)
        self.second_solver = None      # optional callback(engine, obligation, tag): re-discharge with another solver
        # statistics
        self.paths = 0
        self.infeasible_paths = 0
        self.queries = 0
        self.solver_s = 0.0
        self.obligations = 0
        self.discharged = 0
        self.notes_total = {}
        self._path_vars = set()
        self._notes = set()
        self._obs = []
        self.unknowns = 0

    # ---- variables
    def _var(self, name, sort):
        self._path_vars.add(name)
        v = self.vars.get(name)
        if v is None:
            v = z3.Const(name, sort)
            self.vars[name] = v
        return v

    def int(self, name, lo=None, hi=None):
        v = self._var(name, _INT)
        if lo is not None:
            self.solver.add(v >= lo)
        if hi is not None:
            self.solver.add(v <= hi)
        self.model = None
        return SInt(self, v)

    def real(self, name, lo=None, hi=None, lo_strict=False, hi_strict=False):
        v = self._var(name, _REAL)
        if lo is not None:
            self.solver.add(v > _lift(lo) if lo_strict else v >= _lift(lo))
        if hi is not None:
            self.solver.add(v < _lift(hi) if hi_strict else v <= _lift(hi))
        self.model = None
        return SReal(self, v)

    def const(self, v):
        """a concrete number wrapped as a proxy, so that values of one role (e.g. prices) are either all proxies or
        all plain numbers inside one run (proxies hash alike; plain numbers do not)."""
        return _wrap(self, _lift(v))

    def fp(self, name, lo=None, hi=None, hi_strict=False):
        """a finite IEEE binary64 value (for the rounding add-ons)."""
        v = self._var(name, _F64)
        self.solver.add(z3.Not(z3.fpIsNaN(v)), z3.Not(z3.fpIsInf(v)))
        if lo is not None:
            self.solver.add(z3.fpGEQ(v, z3.FPVal(float(lo), _F64)))
        if hi is not None:
            self.solver.add((z3.fpLT if hi_strict else z3.fpLEQ)(v, z3.FPVal(float(hi), _F64)))
        self.model = None
        return SFloat(self, v)

    def boolean(self, name):
        """a nondeterministic python bool (forks)."""
        v = self._var(name, z3.BoolSort())
        return self.branch(v)

    def choice(self, name, n):
        """a nondeterministic python int in range(n) (forks)."""
        if n <= 1:
            return 0
        v = self.int(name, 0, n - 1)
        return self.realize(v.e)

    def func(self, name, *sorts):
        return z3.Function(name, *sorts)

    # ---- solver access
    def _check(self, *extra):
        t = _perf_counter()
        r = self.solver.check(*extra)
        self.solver_s += _perf_counter() - t
        self.queries += 1
        if r == z3.unknown:
            self.unknowns += 1
            raise Inconclusive(self.solver.reason_unknown())
        return r

    def _replaying(self):
        return len(self.trace) < len(self.prefix)

    def assume(self, cond):
        if isinstance(cond, SBool):
            cond = cond.e
        elif isinstance(cond, SNum):
            cond = cond.e != 0
        else:
            if not cond:
                raise Infeasible()
            return
        c = z3.simplify(cond)
        if z3.is_true(c):
            return
        if z3.is_false(c):
            raise Infeasible()
        self.solver.add(c)
        self.model = None
        if self._replaying():
            return
        if self._check() != z3.sat:
            raise Infeasible()
        self.model = self.solver.model()

    def branch(self, cond, aux=None):
        c = z3.simplify(cond)
        if z3.is_true(c):
            return True
        if z3.is_false(c):
            return False
        i = len(self.trace)
        if i >= self.max_decisions:
            raise PathLimit(f"more than {self.max_decisions} decisions on one path")
        if i < len(self.prefix):
            val, alt, paux = self.prefix[i]
            self.trace.append([val, alt, paux])
            self.solver.add(c if val else z3.Not(c))
            self.model = None
            return val
        if self.model is None:
            if self._check() != z3.sat:
                raise Infeasible()
            self.model = self.solver.model()
        mv = z3.is_true(self.model.eval(c, model_completion=True))
        other = z3.Not(c) if mv else c
        has_alt = self._check(other) == z3.sat
        self.trace.append([mv, has_alt, aux])
        self.solver.add(c if mv else z3.Not(c))
        return mv

    def realize(self, e):
        """enumerate the feasible values of an Int term by forking on equality."""
        e = z3.simplify(e)
        if z3.is_int_value(e):
            return e.as_long()
        while True:
            i = len(self.trace)
            if i < len(self.prefix):
                val = self.prefix[i][2]      # the value tried when this decision was first taken
                if val is None:
                    raise Inconclusive("replay mismatch in realize")
            else:
                if self.model is None:
                    if self._check() != z3.sat:
                        raise Infeasible()
                    self.model = self.solver.model()
                v = self.model.eval(e, model_completion=True)
                if not z3.is_int_value(v):
                    raise Inconclusive(f"cannot realise {e}")
                val = v.as_long()
            if self.branch(e == val, aux=val):
                return val

    # ---- oracle interface
    def require(self, cond, tag, message=""):
        """assertion obligation: refuted iff `not cond` is satisfiable under the path condition."""
        if isinstance(cond, SNum):
            cond = SBool(self, cond.e != 0)
        if not isinstance(cond, SBool):
            if not self._replaying():
                self.obligations += 1
            if not cond:
                raise Violation(tag, message)
            if not self._replaying():
                self.discharged += 1
            return
        c = z3.simplify(cond.e)
        if self._replaying():
            return
        self.obligations += 1
        if z3.is_true(c):
            self.discharged += 1
            return
        if z3.is_false(c) or self._check(z3.Not(c)) == z3.sat:
            self.solver.add(z3.Not(c))
            self.model = None
            raise Violation(tag, message)
        self.discharged += 1
        if self.second_solver is not None:
            self.second_solver(self, c, tag)

    def note(self, tag):
        self._notes.add(tag)

    def observe(self, x):
        self._obs.append(x)

    def is_true(self, cond):
        """python truth of a condition, forking if symbolic."""
        return bool(cond)

    # ---- exploration
    def explore(self, fn, max_paths=None, deadline=None, stop_on_failure=False, on_path=None,
                start_prefix=None):
        """DFS over decision prefixes.  Returns (failures, exhausted).  When the budget (max_paths /
        deadline) ends the search early, `self.remaining` holds the decision prefixes of the
        unexplored subtrees (each can be passed back as start_prefix, e.g. to another process)."""
        failures = []
        self.prefix = [[v, False, a] for v, _, a in (start_prefix or [])]
        self.remaining = []
        exhausted = False
        while True:
            self.trace = []
            self._notes = set()
            self._path_vars = set()
            self._obs = []
            self.solver.push()
            self.model = None
            fail = None
            try:
                fn(self)
            except Infeasible:
                self.infeasible_paths += 1
            except Inconclusive:
                self.solver.pop()
                raise
            except PathLimit as e:
                fail = self._failure(e, "path-limit")
            except Violation as e:
                fail = self._failure(e, e.tag)
            except Exception as e:     # noqa: BLE001 — any exception escaping the code under test
                fail = self._failure(e, None)
            self.paths += 1
            for t in self._notes:
                self.notes_total[t] = self.notes_total.get(t, 0) + 1
            if on_path is not None:
                on_path(self)
            self.solver.pop()
            if fail is not None:
                failures.append(fail)
                if stop_on_failure:
                    return failures, False
            tr = self.trace
            while tr and not tr[-1][1]:
                tr.pop()
            if not tr:
                exhausted = True
                break
            last = tr.pop()
            self.prefix = [list(t) for t in tr] + [[not last[0], False, last[2]]]
            if (max_paths is not None and self.paths >= max_paths) or \
                    (deadline is not None and _now() > deadline):
                # hand the open subtrees back: the next prefix itself, and the untaken side of every
                # earlier decision that still has an alternative
                nxt = self.prefix
                self.remaining.append([[v, False, a] for v, _, a in nxt])
                for i, (v, alt, a) in enumerate(nxt[:-1]):
                    if alt:
                        self.remaining.append([[x, False, y] for x, _, y in nxt[:i]] + [[not v, False, a]])
                break
        return failures, exhausted

    def _failure(self, exc, tag):
        if self._check() != z3.sat:   # cannot happen: every decision was checked
            raise Inconclusive("failing path became infeasible")
        m = self.solver.model()
        values = {}
        for name, v in self.vars.items():
            if name not in self._path_vars:
                continue
            if v.sort() == z3.BoolSort():
                values[name] = z3.is_true(m.eval(v, model_completion=True))
            else:
                values[name] = _val(m.eval(v, model_completion=True))
        where, short = _where(exc, self.code_roots)
        if tag is None:
            tag = f"exc:{type(exc).__name__}@{where}"
        msg = getattr(exc, "message", None) or str(exc)
        return Failure(tag, msg[:500], values, type(exc).__name__, where, short)


def _where(exc, roots):
    tb = traceback.extract_tb(exc.__traceback__)
    where = "?"
    for fr in tb:
        if any(fr.filename.startswith(r) for r in roots):
            where = f"{os.path.relpath(fr.filename, roots[0]) if roots else fr.filename}:{fr.name}"
    short = [f"{os.path.basename(fr.filename)}:{fr.lineno}:{fr.name}" for fr in tb[-8:]]
    return where, short


class ConcreteEngine:
    """Same interface, plain python values: used to replay counterexamples on the real code and for
    the concolic agreement self-test."""
    symbolic = False

    def __init__(self, values=None, rng=None, as_float=True, code_roots=()):
        self.values = dict(values or {})
        self.rng = rng
        self.as_float = as_float
        self.drawn = {}
        self._obs = []
        self._notes = set()
        self.code_roots = tuple(code_roots)
        self.obligations = 0

    def _get(self, name, default):
        if name in self.values:
            v = _unjson(self.values[name])
        else:
            v = default()
        self.drawn[name] = v
        return v

    def int(self, name, lo=None, hi=None):
        def d():
            l = lo if lo is not None else -10
            h = hi if hi is not None else 10
            if self.rng is None:
                return l
            # favour small ranges so that ties happen
            h2 = min(h, l + self.rng.choice([1, 2, 3, 8, 1000]))
            return self.rng.randint(l, h2)
        v = self._get(name, d)
        if (lo is not None and v < lo) or (hi is not None and v > hi):
            raise Infeasible()
        return int(v)

    def real(self, name, lo=None, hi=None, lo_strict=False, hi_strict=False):
        def d():
            l = lo if lo is not None else -8
            h = hi if hi is not None else 8
            if self.rng is None:
                return fractions.Fraction(l + h, 2)
            return fractions.Fraction(self.rng.randint(int(l * 64) + 1, int(h * 64) - 1), 64)
        v = self._get(name, d)
        if lo is not None and (v <= lo if lo_strict else v < lo):
            raise Infeasible()
        if hi is not None and (v >= hi if hi_strict else v > hi):
            raise Infeasible()
        if self.as_float:
            return float(v)
        return fractions.Fraction(v)

    def fp(self, name, lo=None, hi=None, hi_strict=False):
        v = float(self._get(name, lambda: (self.rng.random() if self.rng else 0.5) * ((hi if hi is not None else 1.0) - (lo or 0.0)) + (lo or 0.0)))
        if (lo is not None and v < lo) or (hi is not None and (v >= hi if hi_strict else v > hi)):
            raise Infeasible()
        self.drawn[name] = v
        return v

    def const(self, v):
        return v

    def boolean(self, name):
        return bool(self._get(name, lambda: self.rng.random() < 0.5 if self.rng else False))

    def choice(self, name, n):
        if n <= 1:
            return 0
        v = self._get(name, lambda: self.rng.randrange(n) if self.rng else 0)
        if not 0 <= v < n:
            raise Infeasible()
        return int(v)

    def assume(self, cond):
        if not cond:
            raise Infeasible()

    def require(self, cond, tag, message=""):
        self.obligations += 1
        if not cond:
            raise Violation(tag, message)

    def note(self, tag):
        self._notes.add(tag)

    def observe(self, x):
        self._obs.append(x)

    def run(self, fn):
        """returns None if the run passes, else a Failure"""
        try:
            fn(self)
        except Infeasible:
            return "infeasible"
        except Violation as e:
            where, short = _where(e, self.code_roots)
            return Failure(e.tag, e.message, dict(self.drawn), "Violation", where, short)
        except Exception as e:  # noqa: BLE001
            where, short = _where(e, self.code_roots)
            return Failure(f"exc:{type(e).__name__}@{where}", str(e)[:500], dict(self.drawn),
                           type(e).__name__, where, short)
        return None


class PinnedEngine(Engine):
    """Symbolic engine whose variables are pinned to given values: one feasible path, used to check
    that proxies compute what CPython computes (concolic agreement)."""

    def __init__(self, values, **kw):
        super().__init__(**kw)
        self.pins = values

    def int(self, name, lo=None, hi=None):
        r = super().int(name, lo, hi)
        self.solver.add(r.e == _lift(_unjson(self.pins[name])))
        return r

    def real(self, name, lo=None, hi=None, lo_strict=False, hi_strict=False):
        r = super().real(name, lo, hi, lo_strict, hi_strict)
        self.solver.add(r.e == _lift(_unjson(self.pins[name])))
        return r

    def fp(self, name, lo=None, hi=None, hi_strict=False):
        r = super().fp(name, lo, hi, hi_strict)
        self.solver.add(z3.fpEQ(r.e, z3.FPVal(float(self.pins[name]), _F64)))
        return r

    def boolean(self, name):
        v = self._var(name, z3.BoolSort())
        self.solver.add(v == bool(self.pins[name]))
        self.model = None
        return self.branch(v)

    def choice(self, name, n):
        if n <= 1:
            return 0
        v = super().int(name, 0, n - 1)
        self.solver.add(v.e == int(self.pins[name]))
        self.model = None
        return self.realize(v.e)

    def run(self, fn):
        """returns (failures, [observations per path])"""
        out = []

        def on_path(g):
            if g._check() == z3.sat:
                m = g.solver.model()
                out.append([to_py(m, x) for x in g._obs])
        failures, _ = self.explore(fn, on_path=on_path)
        return failures, out

import random, warnings, copy
warnings.simplefilter("ignore")
from pams.runners import SequentialRunner
from pams.logs import Logger
from pams.agents import Agent
from pams.events import EventABC, EventHook
from pams.order import Order, LIMIT_ORDER
class Rec(Logger):
    def __init__(self): super().__init__(); self.orders=[]
    def process_order_log(self, log): self.orders.append((log.time, log.market_id, log.agent_id, log.is_buy, log.price, log.volume, log.ttl))
class Alt(Agent):
    def submit_orders(self, markets):
        return [Order(agent_id=self.agent_id, market_id=m.market_id, is_buy=True, kind=LIMIT_ORDER, volume=1, price=300.0, ttl=3) for m in markets if self.is_market_accessible(m.market_id)]
class Probe(EventABC):
    n = 0
    def hook_registration(self): return [EventHook(event=self, hook_type="market", is_before=True, time=[1, 1])]
    def hooked_before_step_for_market(self, simulator, market): Probe.n += 1
base = {
 "simulation": {"markets": ["M1", "M2"], "agents": ["A"], "sessions": [
     {"sessionName": 0, "iterationSteps": 3, "withOrderPlacement": True, "withOrderExecution": True, "withPrint": False, "maxNormalOrders": 1, "events": ["OM", "P"]}]},
 "M1": {"class": "Market", "tickSize": 1.0, "marketPrice": 300.0},
 "M2": {"class": "Market", "tickSize": 1.0, "marketPrice": 500.0},
 "A": {"class": "Alt", "numAgents": 1, "markets": ["M1", "M2"], "assetVolume": 50, "cashAmount": 10000},
 "OM": {"class": "OrderMistakeShock", "target": "M2", "triggerTime": 1, "priceChangeRate": -0.1, "orderVolume": 77, "orderTimeLength": 5},
 "P": {"class": "Probe"},
}
lg = Rec(); r = SequentialRunner(settings=copy.deepcopy(base), prng=random.Random(1), logger=lg)
r.class_register(Alt); r.class_register(Probe); r._setup(); r._run()
for o in lg.orders: print(o)
print("probe invocations for time list [1,1] with 2 markets at t=1:", Probe.n)

"""property id -> (harness specs, explanation).  Every check is decided by SX exploring the real code."""

EXPLAIN = ("bounded symbolic execution of the real pams code: the harness runs the repository's own "
           "functions on proxy numbers; every branch and every oracle obligation is decided by z3 over "
           "all values inside the stated ranges; the decision tree of every structural case is explored "
           "to exhaustion; counterexamples are replayed concretely on the real code before being reported")

CHECKS = {
    "C01": {"harnesses": [("harness.matching", "C01_ClearingRound"), ("harness.matching", "C01_Continuous"),
                          ("harness.priority", "C01_HeapMaintenance"), ("harness.ophistory", "C01_OpHistory"),
                          ("harness.priority", "C01_DeepHeap")]},
    "C02": {"harnesses": [("harness.priority", "C02_OrderLaws"), ("harness.priority", "C02_HeapMaintenance"),
                          ("harness.priority", "C02_DeepHeap"),
                          ("harness.matching", "C02_ClearingRound"), ("harness.matching", "C02_Continuous")],
            "post": ("harness.xcheck", "post_c02")},
    "C04": {"harnesses": [("harness.ophistory", "C04_OpHistory"), ("harness.ophistory", "C04_NegativeOps"),
                          ("harness.runs", "C04_Spoofing"), ("harness.runs", "C04_HookWrittenVolume"),
                          ("harness.runs", "C04_LifetimeInRun")]},
    "C05": {"harnesses": [("harness.runs", "C05_RunnerBasics")]},
    "C09": {"harnesses": [("harness.sessions", "C09_SessionRules")]},
    "C10": {"harnesses": [("harness.runs", "C10_RunnerBasics")]},
    "C11": {"harnesses": [("harness.runs", "C11_RunnerBasics")]},
    "C12": {"harnesses": [("harness.fundamentals", "C12_LogReturns"), ("harness.fundamentals", "C12_Paths"),
                          ("harness.fundamentals", "C12_ConfiguredParameters"), ("harness.fundamentals", "C12_LateStart")]},
    "C13": {"harnesses": [("harness.events", "C13_HookDispatch"), ("harness.events", "C13_HookValidation")]},
    "C14": {"harnesses": [("harness.events", "C14_FundamentalShock"), ("harness.events", "C14_MistakeShock")]},
    "C15": {"harnesses": [("harness.events", "C15_LimitRuleFn"), ("harness.events", "C15_LimitRuleRun")]},
    "C16": {"harnesses": [("harness.events", "C16_HaltTiming")]},
    "C17": {"harnesses": [("harness.functions", "C17_IndexValues"), ("harness.functions", "C17_IndexInRun")]},
    "C18": {"harnesses": [("harness.config", "C18_JsonExtends"), ("harness.config", "C18_Expansion"),
                          ("harness.config", "C18_RandomValues"), ("harness.config", "C18_UniformIEEE"),
                          ("harness.config", "C18_LegacyKeys"),
                          ("harness.config", "C18_ClassLookup")]},
    "C19": {"harnesses": [("harness.functions", "C19_TickRounding"), ("harness.functions", "C19_TickRoundingInRun")]},
    "C20": {"harnesses": [("harness.agents", "C20_FCN"), ("harness.agents", "C20_MarketShareFCN"),
                          ("harness.agents", "C20_MarketMaker"), ("harness.agents", "C20_Arbitrage"),
                          ("harness.agents", "C20_TestAgentOrders"), ("harness.agents", "C20_Populations")]},
    "C06": {"harnesses": [("harness.clock", "C06_ClockAndHistory")]},
    "C07": {"harnesses": [("harness.repro", "C07_Reproducible")], "post": ("harness.repro", "post")},
    "C08": {"harnesses": [("harness.ophistory", "C08_OpHistory"), ("harness.priority", "C08_HeapMaintenance")]},
    "C03": {"harnesses": [("harness.matching", "C03_ClearingRound"), ("harness.matching", "C03_Continuous"),
                          ("harness.ophistory", "C03_OpHistory"), ("harness.priority", "C03_HeapMaintenance"),
                          ("harness.events", "C03_RoundsUnderHalt"), ("harness.priority", "C03_DeepHeap")]},
}

_N = ("trusted: z3 (cvc5 re-checks assertion obligations of the function-level harnesses in the thorough tier), CPython, the "
      "proxy semantics (checked on every run by a concolic agreement test against plain Python values and by concrete "
      "replay of every counterexample), the oracles (transcriptions of the property text); floats are exact reals unless "
      "stated; stubs, bounds and events reached are listed in the evidence file")


def _lv(what, bound):
    return ("bounded verification by symbolic execution of the real code: " + what + " For every structural case in the "
            "bounds the decision tree of the real functions is explored to exhaustion, z3 deciding each branch and each "
            "oracle obligation over all numeric values in the stated ranges; counterexamples are replayed concretely "
            "before being reported. Right level because the property quantifies over all inputs/histories/schedules and the "
            "deciding code is comparison-heavy integer/real arithmetic. Bounds: " + bound + " Nothing is claimed outside them.")


META = {
 "C01": {"level": _lv("one real matching round from an arbitrary book, continuous trading, and rounds after the book was re-shaped.",
                      "<= 4 resting orders (3+1 / 2+2) per round, <= 3 orders in continuous trading, <= 6 resting limit orders in any arrival order, 7-8 in heap-ordered arrival (thorough: 3+2, 2+3, 4; up to 12 resting orders in heap-ordered arrival)."), "note": _N},
 "C02": {"level": _lv("the real Order comparison operators on three arbitrary accepted orders (unbounded ints) and the fills of real rounds against the textual ranking.",
                      "3 orders for the laws; books of <= 4 orders per side with up to 2 disturbing operations, 5-6 limit orders in any arrival order, 7-8 in heap-ordered arrival (thorough <= 7 / <= 12)."), "note": _N + "; the thorough tier cross-checks the comparison laws with CrossHair"},
 "C03": {"level": _lv("the post-round predicate and absence of exceptions for real rounds from arbitrary books, along operation histories and around trading halts in real runs.",
                      "as C01/C04; market orders on both sides included."), "note": _N},
 "C04": {"level": _lv("operation histories on one real Market (every agent program within the length bound), refused operations, spoofed submissions through the real runner, time-to-live across sessions without placement/execution, volumes written by an event before acceptance.",
                      "<= 3 operations after an opening order, 2-3 orders accumulated while not running + 1 operation, fixed long expiry skeletons (thorough: 4 operations)."), "note": _N},
 "C05": {"level": _lv("real SequentialRunner runs with scripted agents; holdings compared with the endowment folded with the fill records at every callback, activation and at the end.",
                      "<= 3 agents, <= 2 markets, <= 4 steps in 20 run families."), "note": _N},
 "C06": {"level": _lv("real runs with a per-step monitor of every public series, future queries at symbolic distance, session spans.",
                      "<= 3 sessions, <= 7 steps, chunk sizes shrunk to 3 (thorough: one 205-step run with the real chunks)."), "note": _N},
 "C07": {"level": _lv("a reference run in freshly imported pams against a repeated run after another simulation, with every global source and every set-of-strings order a solver variable, string hashes and the decimal context differing between the runs (PARTIAL claim: see level_note).",
                      "two configurations, 2-4 seeds."),
         "note": _N + "; NOT covered: every seed / every configuration (the solver ranges over global sources and set orders, not seeds), bit-level determinism of MT19937/NumPy/SciPy, hash-seed effects other than set iteration order"},
 "C08": {"level": _lv("operation histories with a reference book and a price state machine written from the statement.",
                      "as C04, including switches between running and not running."), "note": _N},
 "C09": {"level": _lv("real runs over the session flag / cap / rate matrix with scripted normal and high-frequency agents and every built-in event.",
                      "<= 2 sessions, <= 3 normal + 2-3 HFT agents, one or two items per consultation, <= 2 markets."), "note": _N},
 "C10": {"level": _lv("the logger's processed stream compared with the callbacks as ground truth (counts, identity, fields, order, framing, timeliness).",
                      "as C05."), "note": _N},
 "C11": {"level": _lv("callbacks of scripted agents compared with order objects, fill records and holdings at callback time.",
                      "as C05."), "note": _N},
 "C12": {"level": _lv("the real Fundamentals code on proxies through real NumPy object arrays; covariance and log-return identities as polynomial identities; paths across chunks, parameter changes and shocks; a market starting at start_at > 0 with back-dated changes; the parameters the runner registers per configured market group.",
                      "3 markets (thorough 4), chunk 2-3 (late start: 2, 3, 100), start_at 0, 2 or 3, horizon 7."), "note": _N + "; Cholesky, the normal sampler and exp are contract stubs: distributional statements hold under z ~ N(0,I) and L.L^T = cov"},
 "C13": {"level": _lv("a user event with solver-chosen hook specifications in a real run; invocations counted per occurrence.",
                      "<= 2 hooks per event, time lists of <= 2 entries (thorough 3) over [-1, T+1], T = 3 steps."), "note": _N},
 "C14": {"level": _lv("both shocks in real multi-market two-session runs with a symbolic rate.",
                      "2-3 markets, 5 steps, window <= 3, 2 agents (thorough 3)."), "note": _N},
 "C15": {"level": _lv("the rule's real clipping function over all prices and rates, and real runs with target and non-target markets.",
                      "2 markets, 2 agents (+1 HFT), <= 2 active steps."), "note": _N + "; one known finding (rule + order-mistake shock on one market) is listed in known_findings.json"},
 "C16": {"level": _lv("real runs with a halt rule: fills only on running markets, halt decision against the moving line, duration, resumption, session boundaries.",
                      "halt length 1-2, <= 5 steps (thorough 6), <= 3 agents, <= 2 halts, <= 2 target markets."), "note": _N},
 "C17": {"level": _lv("real IndexMarket computations as polynomial identities over symbolic component prices; recorded fundamentals in real runs.",
                      "2-3 components, concrete unequal shares (thorough: symbolic shares for 2 components)."), "note": _N},
 "C18": {"level": _lv("real json_extends over every inheritance graph, real _setup over counts and ranges, real JsonRandom with symbolic draws (exact reals and IEEE binary64), real Session.setup, find_class.",
                      "3 entries x 3 keys (thorough 4 x 2), counts and ranges of length 1-4, nine (a,b) pairs."), "note": _N + "; one known finding (uniform upper end reached by rounding) is listed in known_findings.json"},
 "C19": {"level": _lv("the real _add_order on any positive real price for fifteen tick sizes, both sides (also marketable on arrival), and the same price on the opposite side; submissions through the real runner to two markets with different ticks.",
                      "exact reals; ticks listed in the evidence."), "note": _N},
 "C20": {"level": _lv("the real submit_orders of the built-in agents on symbolic market states, including markets the agent cannot access and several agents of one population.",
                      "windows <= 3, <= 3 markets / components, two polls per step."), "note": _N + "; log/exp/gauss are contract stubs (exp > 0, log defined on positives)"},
}

# properties not claimed (yet): kept current by hand
NOT_APPLICABLE = {}

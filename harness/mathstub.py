"""Contract stubs for math.log / math.exp (and friends) used when a pams module's `math` is replaced:
each call returns a fresh solver real constrained only by the documented contract (sign, strict
monotonicity and functional consistency against earlier calls).  Works with both engines: with the
concrete engine the values come from the replayed model (or random draws filtered by the contract)."""
import math

from sx import is_sym, sand, sor, snot


class MathStub:
    def __init__(self, g, tag="m", pairwise=True, signs=True):
        self.g = g
        self.tag = tag
        self.pairwise = pairwise     # relate every call to all earlier ones (monotone, functional)
        self.signs = signs           # sign of log(x) / position of exp(x) relative to 1
        self.logs = []     # (arg, value)
        self.exps = []
        self.calls = []    # ("log"|"exp", arg, value) in call order

    # things pams modules use from math that work on proxies as they are
    floor = staticmethod(math.floor)
    ceil = staticmethod(math.ceil)
    inf = math.inf
    nan = math.nan
    pi = math.pi
    e = math.e

    @staticmethod
    def isnan(x):
        return False if is_sym(x) else math.isnan(x)

    @staticmethod
    def isinf(x):
        return False if is_sym(x) else math.isinf(x)

    def _consistent(self, table, x, y):
        g = self.g
        if not self.pairwise:
            return
        for x2, y2 in table:
            g.assume(sand(sor(snot(x == x2), y == y2), sor(snot(x < x2), y < y2), sor(snot(x > x2), y > y2)))

    def log(self, x):
        g = self.g
        if not (x > 0):
            raise ValueError("math domain error")
        y = g.real(f"{self.tag}LOG{len(self.logs)}")
        if self.signs:
            g.assume(sand(sor(snot(x > 1), y > 0), sor(snot(x == 1), y == 0), sor(snot(x < 1), y < 0)))
        self._consistent(self.logs, x, y)
        for xe, ye in (self.exps if self.pairwise else []):      # exp(log(x)) == x  where both occur
            g.assume(sor(snot(xe == y), ye == x))
        self.logs.append((x, y))
        self.calls.append(("log", x, y))
        return y

    def exp(self, x):
        g = self.g
        y = g.real(f"{self.tag}EXP{len(self.exps)}")
        if self.signs:
            g.assume(sand(y > 0, sor(snot(x > 0), y > 1), sor(snot(x == 0), y == 1), sor(snot(x < 0), y < 1)))
        else:
            g.assume(y > 0)
        self._consistent(self.exps, x, y)
        for xl, yl in (self.logs if self.pairwise else []):
            g.assume(sor(snot(yl == x), y == xl))
        self.exps.append((x, y))
        self.calls.append(("exp", x, y))
        return y


class ProxyMath:
    """`math` for modules whose arithmetic must run on proxies: functions that are exact over the reals are
    given their mathematical definition; everything else falls back to the real module for plain numbers
    and fails loudly for proxies."""

    def __getattr__(self, name):
        real = getattr(math, name)
        if not callable(real):
            return real

        def f(*a, **k):
            if any(is_sym(x) for x in a) or any(is_sym(x) for x in k.values()):
                raise TypeError(f"math.{name} on a symbolic value is not modelled")
            return real(*a, **k)
        return f

    floor = staticmethod(math.floor)
    ceil = staticmethod(math.ceil)
    trunc = staticmethod(math.trunc)

    @staticmethod
    def fabs(x):
        return abs(x) if is_sym(x) else math.fabs(x)

    @staticmethod
    def isclose(a, b, *, rel_tol=1e-09, abs_tol=0.0):
        if not (is_sym(a) or is_sym(b)):
            return math.isclose(a, b, rel_tol=rel_tol, abs_tol=abs_tol)
        diff = abs(a - b)
        aa, ab = abs(a), abs(b)
        return sor(a == b, diff <= rel_tol * aa, diff <= rel_tol * ab, diff <= abs_tol)

    @staticmethod
    def isnan(x):
        return False if is_sym(x) else math.isnan(x)

    @staticmethod
    def isinf(x):
        return False if is_sym(x) else math.isinf(x)

    @staticmethod
    def isfinite(x):
        return True if is_sym(x) else math.isfinite(x)


def install_global_math():
    """make the functions of the `math` module that are exact over the reals accept proxies wherever pams code calls
    them (math.isclose / fabs / isnan / isinf / isfinite); plain numbers go to the original functions."""
    if getattr(math, "_sx_patched", False):
        return
    orig = {n: getattr(math, n) for n in ("isclose", "fabs", "isnan", "isinf", "isfinite")}

    def isclose(a, b, *, rel_tol=1e-09, abs_tol=0.0):
        if not (is_sym(a) or is_sym(b)):
            return orig["isclose"](a, b, rel_tol=rel_tol, abs_tol=abs_tol)
        diff = abs(a - b)
        return sor(a == b, diff <= rel_tol * abs(a), diff <= rel_tol * abs(b), diff <= abs_tol)
    math.isclose = isclose
    math.fabs = lambda x: abs(x) if is_sym(x) else orig["fabs"](x)
    math.isnan = lambda x: False if is_sym(x) else orig["isnan"](x)
    math.isinf = lambda x: False if is_sym(x) else orig["isinf"](x)
    math.isfinite = lambda x: True if is_sym(x) else orig["isfinite"](x)
    math._sx_patched = True

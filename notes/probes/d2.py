import random, warnings, copy, struct, math
warnings.simplefilter("ignore")
from pams.runners import SequentialRunner
from pams.agents import Agent
from pams.order import Order, LIMIT_ORDER
from pams.utils.json_random import JsonRandom
class Alt(Agent):
    def submit_orders(self, markets):
        out=[]
        for m in markets:
            if self.is_market_accessible(m.market_id):
                out.append(Order(agent_id=self.agent_id, market_id=m.market_id, is_buy=(self.agent_id%2==0), kind=LIMIT_ORDER, volume=1, price=300.0, ttl=3))
        return out
base = {
 "simulation": {"markets": ["M1", "M2"], "agents": ["A"], "sessions": [
     {"sessionName": 0, "iterationSteps": 3, "withOrderPlacement": True, "withOrderExecution": True, "withPrint": False, "maxNormalOrders": 2, "events": ["PL"]}]},
 "M1": {"class": "Market", "tickSize": 1.0, "marketPrice": 300.0},
 "M2": {"class": "Market", "tickSize": 1.0, "marketPrice": 300.0},
 "A": {"class": "Alt", "numAgents": 2, "markets": ["M1", "M2"], "assetVolume": 50, "cashAmount": 10000},
 "PL": {"class": "PriceLimitRule", "targetMarkets": ["M1"], "triggerChangeRate": 0.05},
}
r = SequentialRunner(settings=copy.deepcopy(base), prng=random.Random(1)); r.class_register(Alt)
try:
    r._setup(); r._run(); print("PL non-target: ok")
except BaseException as e:
    print("PL non-target raised:", type(e).__name__, e)
for rng in [(0,0),(0,1),(0,2),(3,4)]:
    cfg = copy.deepcopy(base); cfg["simulation"]["sessions"][0].pop("events")
    cfg["simulation"]["markets"]=["M1"]; cfg["A"]["markets"]=["M1"]
    cfg["M1"].update({"from": rng[0], "to": rng[1]})
    r = SequentialRunner(settings=cfg, prng=random.Random(1)); r.class_register(Alt)
    try:
        r._setup(); print(rng, [ (m.market_id, m.name) for m in r.simulator.markets])
    except BaseException as e:
        print(rng, "raised:", type(e).__name__, e)
class P(random.Random):
    def random(self): return 1 - 2**-53
print("uniform [10,20) with r=1-2^-53:", JsonRandom(P())._next_uniform(10, 20))
class Z(random.Random):
    def random(self): return 0.0
try: print(JsonRandom(Z()).random({"expon":[3]}))
except Exception as e: print("expon r=0:", type(e).__name__, e)

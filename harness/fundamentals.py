"""C12: the real pams.fundamentals.Fundamentals run on proxies through real NumPy (object arrays).

Stubs (by contract): scipy.linalg.cholesky -> fresh lower-triangular L (its defining equation L.L^T = A is
the LAPACK contract and is not needed by the checks below, which compare polynomials over L's entries);
Generator.standard_normal -> matrix of fresh reals; exp -> contract stub."""
import itertools
import random

import numpy as np

import pams.fundamentals as FM
from pams.fundamentals import Fundamentals

from sx import sand, sor, snot, is_sym, aeq
from sx.driver import Harness
from .common import mk_market
from .mathstub import MathStub


class NPFacade:
    """numpy with object dtype at the two places where pams creates arrays from python numbers, so that
    NumPy's own broadcasting / dot / stack / cumsum run on proxies; exp goes to the contract stub."""

    def __init__(self, mon):
        self._mon = mon

    def __getattr__(self, k):
        return getattr(np, k)

    def eye(self, n):
        return np.eye(n).astype(object)

    def asarray(self, x):
        return np.asarray(x, dtype=object)

    def exp(self, a):
        a = np.asarray(a, dtype=object)
        out = np.empty(a.shape, dtype=object)
        for idx in np.ndindex(a.shape):
            out[idx] = self._mon.exp(a[idx])
        self._mon.exp_calls.append((a, out))
        return out


class GenMonitor:
    """installs the stubs on one Fundamentals instance and checks every _generate_log_return call."""

    def __init__(self, g, f):
        self.g = g
        self.f = f
        # exp: only "exp(x) > 0 and its sign relative to 1" is used here; relating the ~25 calls of a path
        # pairwise would put hundreds of nonlinear implications into every query
        self.stub = MathStub(g, "f", pairwise=False)
        self.exp_calls = []
        self.chol_calls = []
        self.z_calls = []
        self.n_gen = 0
        self.saved = (FM.np, FM.cholesky)
        FM.np = NPFacade(self)
        FM.cholesky = self.cholesky
        f._np_prng = self
        self._orig = f._generate_log_return
        f._generate_log_return = self.generate_log_return
        self.gens = []          # one record per _generate_next: until, ids, logret, exp args, exp values
        # the configured parameters, recorded from the calls of the public setters (not read back from the object)
        self.want_vol = dict(f.volatilities)
        self.want_drift = dict(f.drifts)
        self.want_corr = {frozenset(k): v for k, v in f.correlation.items()}
        mon = self

        def wrap(name, record):
            orig = getattr(f, name)

            def call(*a, **k):
                orig(*a, **k)           # (a refused call raises before anything is recorded)
                record(*a, **k)
            setattr(f, name, call)
        wrap("change_volatility", lambda market_id, volatility, time=0: mon.want_vol.__setitem__(market_id, volatility))
        wrap("change_drift", lambda market_id, drift, time=0: mon.want_drift.__setitem__(market_id, drift))
        wrap("set_correlation", lambda market_id1, market_id2, corr, time=0:
             mon.want_corr.__setitem__(frozenset((market_id1, market_id2)), corr))
        wrap("remove_correlation", lambda market_id1, market_id2, time=0:
             mon.want_corr.pop(frozenset((market_id1, market_id2)), None))

    def restore(self):
        FM.np, FM.cholesky = self.saved

    def exp(self, x):
        if not is_sym(x):
            import math
            return math.exp(x) if not self.g.symbolic and isinstance(x, float) else self.stub.exp(x)
        return self.stub.exp(x)

    def cholesky(self, cov, lower=True):
        n = cov.shape[0]
        k = len(self.chol_calls)
        L = np.zeros((n, n), dtype=object)
        for i in range(n):
            for j in range(i + 1):
                L[i, j] = self.g.real(f"L{k}_{i}{j}")
        self.chol_calls.append((cov, L))
        return L

    def standard_normal(self, size):
        k = len(self.z_calls)
        a = np.empty(size, dtype=object)
        for idx in np.ndindex(*size):
            a[idx] = self.g.real(f"z{k}_" + "_".join(map(str, idx)))
        self.z_calls.append(a)
        return a

    def corr(self, a, b):
        return self.want_corr.get(frozenset((a, b)), 0)

    def generate_log_return(self, generate_target_ids, length):
        g, f = self.g, self.f
        nc, nz = len(self.chol_calls), len(self.z_calls)
        out = self._orig(generate_target_ids=generate_target_ids, length=length)
        self.n_gen += 1
        ids = list(generate_target_ids)
        chol_ids = [x for x in ids if bool(self.want_vol[x] != 0.0)]
        g.require(out.shape == (len(ids), length), "C12.log-return-shape")
        if chol_ids:
            g.require(len(self.chol_calls) == nc + 1 and len(self.z_calls) == nz + 1, "C12.sampling-calls")
            cov, L = self.chol_calls[-1]
            z = self.z_calls[-1]
            g.require(cov.shape == (len(chol_ids), len(chol_ids)), "C12.covariance-shape",
                      "covariance matrix does not cover exactly the markets with non-zero volatility")
            g.require(z.shape == (len(chol_ids), length), "C12.draws-shape")
            for a, xa in enumerate(chol_ids):
                for b, xb in enumerate(chol_ids):
                    c = 1 if xa == xb else self.corr(xa, xb)
                    g.require(cov[a, b] == self.want_vol[xa] * c * self.want_vol[xb], "C12.covariance",
                              f"covariance entry for markets ({xa},{xb}) is not vol x corr x vol")
                    if xa != xb and not (isinstance(c, int) and c == 0):
                        g.note("correlated-pair")
        for r, x in enumerate(ids):
            for t in range(length):
                if x in chol_ids:
                    i = chol_ids.index(x)
                    want = self.want_drift[x] + sum(L[i, k] * z[k, t] for k in range(len(chol_ids)))
                    g.require(out[r, t] == want, "C12.log-return!=drift+L.z",
                              f"log-return of market {x} is not drift + (Cholesky factor x normal draws)")
                else:
                    g.note("zero-vol-row")
                    g.require(out[r, t] == self.want_drift[x], "C12.zero-vol-log-return!=drift")
        self.gens.append({"until": f._generated_until, "ids": ids, "logret": out, "n_exp": len(self.exp_calls),
                          "drift": dict(self.want_drift)})
        return out


class LogReturns(Harness):
    cvc5_recheck = True      # thorough tier: obligations re-discharged with cvc5
    name = "LogReturns"
    title = "real Fundamentals._generate_log_return: drift + Cholesky(vol x corr x vol) . N(0,I) draws"
    what_symbolic = "volatilities (>0), drifts, pairwise correlations in (-1,1), the normal draws, the Cholesky factor's entries"
    nontrivial_event = "at least two correlated markets were generated"
    bounds = {"quick": "3 markets in every registration order, every subset with zero volatility, one or two configured correlations, requested ids in registration order or reversed, length 2",
              "thorough": "4 markets"}
    reach = ("nontrivial", "correlated-pair", "zero-vol-row")
    stubs = ("scipy.linalg.cholesky -> fresh lower-triangular matrix of solver reals",
             "numpy Generator.standard_normal -> fresh solver reals",
             "numpy.eye/asarray -> object dtype (NumPy's own arithmetic then runs on proxies)")
    assumptions = ("under z ~ N(0,I) (NumPy's contract) and L.L^T = cov (LAPACK's contract) the checked identities "
                   "are exactly: mean = drift, covariance = vol x corr x vol",)
    outside = ("that NumPy's generator is standard normal and i.i.d.", "LAPACK's Cholesky", "sample statistics")
    agreement_runs = 6

    def cases(self, tier):
        n = 3 if tier == "quick" else 4
        out = []
        for zero in itertools.product((False, True), repeat=n):
            for pairs in ([(0, 1)], [(1, 2)], [(0, 2), (1, 2)], [(2, 0)], []):
                if any(zero[a] or zero[b] for a, b in pairs if max(a, b) < n):
                    continue
                for rev in (False, True):
                    out.append({"n": n, "zero": list(zero), "pairs": [list(p) for p in pairs], "rev": rev})
        # drifts given as Python ints (0 / -1), as the API accepts them
        out.append({"n": 2, "zero": [False, False], "pairs": [[0, 1]], "rev": False, "int_drifts": [0, 0]})
        out.append({"n": 2, "zero": [False, True], "pairs": [], "rev": False, "int_drifts": [-1, 0]})
        return out

    def run(self, g, case):
        f = Fundamentals(prng=random.Random(0))
        n = case["n"]
        ids = [10 + i for i in range(n)]
        for i, mid in enumerate(ids):
            vol = 0.0 if case["zero"][i] else g.real(f"vol{i}", 0, 10, lo_strict=True)
            drift = case["int_drifts"][i] if case.get("int_drifts") else g.real(f"mu{i}", -1, 1)
            f.add_market(market_id=mid, initial=100.0 + i, drift=drift, volatility=vol)
        for k, (a, b) in enumerate(case["pairs"]):
            f.set_correlation(ids[a], ids[b], g.real(f"rho{k}", -1, 1, lo_strict=True, hi_strict=True))
        mon = GenMonitor(g, f)
        try:
            req = list(reversed(ids)) if case["rev"] else list(ids)
            out = f._generate_log_return(generate_target_ids=req, length=2)
            if len([p for p in case["pairs"]]) and sum(not z for z in case["zero"]) >= 2:
                g.note("nontrivial")
            g.observe(len(mon.chol_calls))
        finally:
            mon.restore()


class Paths(Harness):
    cvc5_recheck = True      # thorough tier: obligations re-discharged with cvc5
    name = "Paths"
    title = "real Fundamentals price paths across generation chunks, parameter changes and shocks"
    what_symbolic = ("initial values (>0), drifts, volatilities, correlation, draws, exp values (contract stub); the "
                     "change point, the kind of change and the chunk size are the case split")
    nontrivial_event = "a parameter change or shock happened after at least one generated chunk"
    bounds = {"quick": "2 markets (one may have zero volatility), chunk size 2 or 3, horizon 7 steps, one change "
                       "(drift / volatility incl. 0 <-> positive / set or remove correlation / price shock) at t in 1..5; "
                       "a drift change followed by a second change at a later time with no read in between",
              "thorough": "adds every first change (drift / volatility / volatility to zero / correlation / shock) x second "
                          "change (volatility / drift of another market / correlation) x pair of change times 1 <= t < t2 <= 5, "
                          "chunk sizes 2 and 3 (with chunk 8 some of these nonlinear queries end unknown: left out)"}
    reach = ("nontrivial", "zero-vol-path", "vol-crosses-zero", "history-kept", "second-change-without-read")
    stubs = LogReturns.stubs + ("numpy.exp -> contract stub (exp > 0, sign, monotone)",)
    outside = ("float rounding of exp/cumsum", "start_at != 0", "setters called with their default time=0 (which regenerates everything by design)")
    agreement_runs = 4

    def cases(self, tier):
        out = []
        kinds = ["none", "drift", "vol", "vol-to-zero", "vol-from-zero", "set-corr", "remove-corr", "shock",
                 "set-corr-rev", "remove-after-rev"]
        for chunk in (2, 3):
            for kind in kinds:
                for t in ((2,) if kind == "none" else (1, 2, 3, 4)):
                    out.append({"chunk": chunk, "kind": kind, "t": t, "zero1": kind == "vol-from-zero"})
        # two changes at increasing times with no read in between (everything up to the horizon generated before)
        for chunk in (3, 8):
            for second in ("vol", "drift-other", "set-corr"):
                for t, t2 in ((1, 3), (2, 3), (1, 5)):
                    out.append({"chunk": chunk, "kind": "drift", "t": t, "zero1": False, "then": second, "t2": t2})
        if tier == "thorough":
            # every first change x every second change x every pair of change times, chunks 2 and 3
            for chunk in (2, 3):
                for kind in ("drift", "vol", "vol-to-zero", "set-corr", "shock"):
                    for second in ("vol", "drift-other", "set-corr"):
                        for t in range(1, 5):
                            for t2 in range(t + 1, 6):
                                c = {"chunk": chunk, "kind": kind, "t": t, "zero1": False, "then": second, "t2": t2}
                                if c not in out:
                                    out.append(c)
        return out

    HORIZON = 7

    def run(self, g, case):
        f = Fundamentals(prng=random.Random(0))
        f._generate_chunk_size = case["chunk"]
        init = [g.real("init0", 0, 10 ** 6, lo_strict=True), g.real("init1", 0, 10 ** 6, lo_strict=True)]
        vol0 = g.real("vol0", 0, 10, lo_strict=True)
        vol1 = 0.0 if case["zero1"] else g.real("vol1", 0, 10, lo_strict=True)
        f.add_market(0, init[0], g.real("mu0", -1, 1), vol0)
        f.add_market(1, init[1], g.real("mu1", -1, 1), vol1)
        f.add_market(2, 50.0, g.real("mu2", -1, 1), 0.0)          # a deterministic market
        if case["kind"] in ("remove-corr", "set-corr-rev", "remove-after-rev"):
            f.set_correlation(0, 1, g.real("rho", -1, 1, lo_strict=True, hi_strict=True))
        if case["kind"] == "remove-after-rev":
            # the pair named in both orientations before it is removed
            f.set_correlation(1, 0, g.real("rho_b", -1, 1, lo_strict=True, hi_strict=True))
        mon = GenMonitor(g, f)
        try:
            t = case["t"]
            # read up to t (generates the chunks needed), snapshot, change at t, read the rest
            first = {m: [f.get_fundamental_price(m, k) for k in range(t + 1)] for m in (0, 1, 2)}
            if case.get("then"):
                f.get_fundamental_prices(0, range(self.HORIZON + 1))       # the whole horizon exists already
            if case["kind"] == "drift":
                f.change_drift(0, g.real("mu0b", -1, 1), time=t)
            elif case["kind"] == "vol":
                f.change_volatility(0, g.real("vol0b", 0, 10, lo_strict=True), time=t)
            elif case["kind"] == "vol-to-zero":
                f.change_volatility(0, 0.0, time=t)
                g.note("vol-crosses-zero")
            elif case["kind"] == "vol-from-zero":
                f.change_volatility(1, g.real("vol1b", 0, 10, lo_strict=True), time=t)
                g.note("vol-crosses-zero")
            elif case["kind"] == "set-corr":
                f.set_correlation(0, 1, g.real("rho", -1, 1, lo_strict=True, hi_strict=True), time=t)
            elif case["kind"] == "remove-corr":
                f.remove_correlation(1, 0, time=t)
            elif case["kind"] == "set-corr-rev":
                # the pair is updated naming it in the other orientation, then once more in the first one
                f.set_correlation(1, 0, g.real("rho_r", -1, 1, lo_strict=True, hi_strict=True), time=t)
                f.set_correlation(0, 1, g.real("rho_s", -1, 1, lo_strict=True, hi_strict=True), time=t)
            elif case["kind"] == "remove-after-rev":
                f.remove_correlation(0, 1, time=t)
            elif case["kind"] == "shock":
                class _S:
                    fundamentals = f
                m = mk_market(tick=1, price=100, sim=_S(), market_id=0)
                for k in range(1, t + 1):
                    m._update_time(next_fundamental_price=first[0][k])
                scale = g.real("scale", 0, 10, lo_strict=True)
                m.change_fundamental_price(scale=scale)
                first[0][t] = first[0][t] * scale
                g.require(m.get_fundamental_price() == first[0][t], "C12.shock-level")
            if case.get("then") == "vol":
                f.change_volatility(1, g.real("vol1b", 0, 10, lo_strict=True), time=case["t2"])
            elif case.get("then") == "drift-other":
                f.change_drift(1, g.real("mu1b", -1, 1), time=case["t2"])
            elif case.get("then") == "set-corr":
                f.set_correlation(0, 1, g.real("rho2", -1, 1, lo_strict=True, hi_strict=True), time=case["t2"])
            if case.get("then"):
                g.note("second-change-without-read")
            if case["kind"] != "none":
                g.note("nontrivial")
            gen_before = mon.n_gen
            allp = {m: f.get_fundamental_prices(m, range(self.HORIZON + 1)) for m in (0, 1, 2)}
            for m in (0, 1, 2):
                p = allp[m]
                g.require(p[0] == (init[m] if m < 2 else 50.0), "C12.starts-at-initial")
                for k in range(t + 1):
                    g.require(p[k] == first[m][k], "C12.history-changed",
                              f"market {m}: value at time {k} <= change time {t} was altered by the change")
                g.note("history-kept")
                for k in range(self.HORIZON + 1):
                    g.require(p[k] > 0, "C12.not-positive", f"market {m} time {k}")
            # every generated value continues from a kept value through exp(cumulated log-return)
            self.check_chain(g, f, mon, allp, skip=(0, t) if case["kind"] == "shock" else None)
            # ... and every value after the (first) change was generated after the change(s), i.e. with the changed
            # parameters: nothing generated earlier survives beyond the change point
            if case["kind"] != "none":
                owner = {}
                for c, rec in enumerate(mon.gens):
                    for x in rec["ids"]:
                        for j in range(rec["logret"].shape[1]):
                            owner[x, rec["until"] + 1 + j] = c
                for x in (0, 1, 2):
                    for k in range(t + 1, self.HORIZON + 1):
                        g.require((x, k) in owner and owner[x, k] >= gen_before, "C12.value-after-change-not-regenerated",
                                  f"market {x}: the value for time {k} > change time {t} was generated before the change(s)")
            # zero volatility: exactly level x exp(drift x steps)
            self.check_zero_vol(g, f, mon, allp, case)
        finally:
            mon.restore()

    def check_chain(self, g, f, mon, allp, skip=None):
        """every value after the regeneration point = kept value x exp(cumulated log-return) of the call that
        generated it (the last call covering that time)."""
        owner = {}
        for c, rec in enumerate(mon.gens):
            g.require(rec["n_exp"] < len(mon.exp_calls), "C12.harness:exp-call-missing")
            args, vals = mon.exp_calls[rec["n_exp"]]
            rec["args"], rec["vals"] = args, vals
            n = rec["logret"].shape[1]
            for r, x in enumerate(rec["ids"]):
                for j in range(n):
                    owner[x, rec["until"] + 1 + j] = (c, r, j)
        for (x, k), (c, r, j) in sorted(owner.items()):
            if k > self.HORIZON or (x, k) == skip:     # the shocked value itself is checked against level x scale
                continue
            rec = mon.gens[c]
            csum = sum(rec["logret"][r, l] for l in range(j + 1))
            g.require(rec["args"][r, j] == csum, "C12.exponent!=cumulated-log-return", f"market {x} time {k}")
            g.require(allp[x][k] == allp[x][rec["until"]] * rec["vals"][r, j], "C12.price!=kept-level*exp",
                      f"market {x}: value at {k} does not continue from the value at {rec['until']}")

    def check_zero_vol(self, g, f, mon, allp, case):
        """market 2 has zero volatility throughout: value = regeneration level x exp(drift x steps)."""
        g.note("zero-vol-path")
        mu2 = mon.want_drift[2]
        for rec in mon.gens:
            r = rec["ids"].index(2)
            for j in range(rec["logret"].shape[1]):
                g.require(rec["args"][r, j] == (j + 1) * mu2, "C12.zero-vol-exponent!=drift*steps",
                          f"deterministic market: exponent after {j + 1} steps is not drift x {j + 1}")


class LateStart(Paths):
    name = "LateStart"
    title = "a market whose fundamental walk starts at start_at = s > 0, with back-dated and later parameter changes"
    what_symbolic = ("initial values (>0), drifts, volatilities, draws, exp values (contract stub); the start time, the "
                     "change time, the kind of change, whether the late market is deterministic and the chunk size are the case split")
    nontrivial_event = "the generator had passed the late start when a parameter change dated before it arrived"
    bounds = {"quick": "3 markets (one starting at s in {2,3}, stochastic or deterministic; one deterministic from 0), chunk size 2, 3 "
                       "or 100, horizon 7, no change or one change (drift / volatility of the early market, drift of the late one) "
                       "at t in {0 (the setters' default), 1, s, s+1}, after the whole horizon was read",
              "thorough": "adds the deterministic market starting late too (starts (2,4), (3,1), (3,5)), change times 0, 1, "
                          "between the starts, at and after the later start"}
    reach = ("nontrivial", "late-start", "history-kept", "zero-vol-path")
    outside = ("float rounding of exp/cumsum", "more than two late markets")

    def cases(self, tier):
        out = []
        for chunk in (2, 3, 100):
            for s in (2, 3):
                for zero in (False, True):
                    out.append({"chunk": chunk, "s": s, "zero1": zero, "kind": "none", "t": 0})
                    for kind in ("drift", "vol", "drift-late"):
                        for t in (0, 1, s, s + 1):
                            out.append({"chunk": chunk, "s": s, "zero1": zero, "kind": kind, "t": t})
        if tier == "thorough":
            # the deterministic market starts late as well, at another time than the first late market
            for chunk in (2, 3, 100):
                for s, s2 in ((2, 4), (3, 1), (3, 5)):
                    for kind in ("none", "drift", "vol", "drift-late"):
                        for t in ((0,) if kind == "none" else (0, 1, min(s, s2) + 1, max(s, s2), max(s, s2) + 1)):
                            out.append({"chunk": chunk, "s": s, "s2": s2, "zero1": False, "kind": kind, "t": t})
        return out

    def run(self, g, case):
        f = Fundamentals(prng=random.Random(0))
        f._generate_chunk_size = case["chunk"]
        s, t = case["s"], case["t"]
        init = [g.real("init0", 0, 10 ** 6, lo_strict=True), g.real("init1", 0, 10 ** 6, lo_strict=True)]
        vol1 = 0.0 if case["zero1"] else g.real("vol1", 0, 10, lo_strict=True)
        f.add_market(0, init[0], g.real("mu0", -1, 1), g.real("vol0", 0, 10, lo_strict=True))
        f.add_market(1, init[1], g.real("mu1", -1, 1), vol1, start_at=s)
        f.add_market(2, 50.0, g.real("mu2", -1, 1), 0.0, start_at=case.get("s2", 0))
        s = {1: s, 2: case.get("s2", 0)}
        mon = GenMonitor(g, f)
        try:
            g.note("late-start")
            first = {m: list(f.get_fundamental_prices(m, range(self.HORIZON + 1))) for m in (0, 1, 2)}
            self.check_late(g, mon, first, init, s)
            if case["kind"] == "drift":
                f.change_drift(0, g.real("mu0b", -1, 1), time=t)
            elif case["kind"] == "vol":
                f.change_volatility(0, g.real("vol0b", 0, 10, lo_strict=True), time=t)
            elif case["kind"] == "drift-late":
                f.change_drift(1, g.real("mu1b", -1, 1), time=t)
            if case["kind"] != "none" and t < s[1]:
                g.note("nontrivial")
            allp = {m: f.get_fundamental_prices(m, range(self.HORIZON + 1)) for m in (0, 1, 2)}
            for m in (0, 1, 2):
                for k in range(t + 1):
                    g.require(allp[m][k] == first[m][k], "C12.history-changed",
                              f"market {m}: value at time {k} <= change time {t} was altered by the change")
                g.note("history-kept")
            self.check_late(g, mon, allp, init, s)
        finally:
            mon.restore()

    def check_late(self, g, mon, allp, init, s):
        for m in (0, 1, 2):
            g.require(allp[m][0] == (init[m] if m < 2 else 50.0), "C12.starts-at-initial")
            for k in range(self.HORIZON + 1):
                g.require(allp[m][k] > 0, "C12.not-positive", f"market {m} time {k}")
        for m, sm in s.items():
            for k in range(sm + 1):
                g.require(allp[m][k] == (init[m] if m < 2 else 50.0), "C12.late-market-moves-before-its-start",
                          f"market {m} starting at {sm}: value at time {k} is not the configured initial value")
            for rec in mon.gens:
                if m in rec["ids"]:
                    g.require(rec["until"] >= sm, "C12.late-market-generated-before-its-start",
                              f"market {m} starting at {sm} is part of a chunk that begins at {rec['until']}")
        self.check_chain(g, None, mon, allp)
        g.note("zero-vol-path")
        for rec in mon.gens:
            for x in rec["ids"]:
                if bool(mon.want_vol[x] == 0.0):
                    r = rec["ids"].index(x)
                    for j in range(rec["logret"].shape[1]):
                        g.require(rec["args"][r, j] == (j + 1) * rec["drift"][x], "C12.zero-vol-exponent!=drift*steps",
                                  f"deterministic market {x}: exponent after {j + 1} steps is not drift x {j + 1}")


class C12_LateStart(LateStart):
    pass


class C12_LogReturns(LogReturns):
    pass


class C12_Paths(Paths):
    pass


class ConfiguredParameters(Harness):
    """the parameters a configuration gives per market group are the ones the generator is set up with."""
    name = "ConfiguredParameters"
    title = "real SequentialRunner._setup(): initial value, drift and volatility registered per market = the group's configuration"
    what_symbolic = ("the order in which three market groups are listed and, per group, whether it gives a drift / a "
                     "volatility / its own fundamentalPrice (solver choices, enumerated by the engine)")
    nontrivial_event = "a group without a drift or volatility of its own was listed after one that has them"
    reach = ("nontrivial", "zero-volatility-path-checked")
    bounds = {"quick": "3 groups (one of 2 markets), every listing order, every subset of {drift, volatility, fundamentalPrice} "
                       "per group for two of them; 3 steps of the zero-volatility markets' paths",
              "thorough": "same"}
    agreement_runs = 2

    def cases(self, tier):
        return [{"perm": list(p)} for p in itertools.permutations(range(3))]

    def run(self, g, case):
        import math
        from . import rn
        base = [("GA", 300, 0.002, 0.01), ("GB", 500, -0.001, 0.02), ("GC", 700, 0.003, 0.0)]
        groups, want = {}, {}
        for i, (nme, price, drift, vol) in enumerate(base):
            st = {"class": "Market", "tickSize": 1, "marketPrice": price}
            if nme == "GB":
                st["numMarkets"] = 2
            has_d = g.choice(f"{nme}_drift", 2) == 1 if nme != "GA" else True
            has_v = g.choice(f"{nme}_vol", 2) == 1 if nme != "GA" else True
            has_f = g.choice(f"{nme}_fund", 2) == 1 if nme != "GA" else False
            if has_d:
                st["fundamentalDrift"] = drift
            if has_v:
                st["fundamentalVolatility"] = vol
            if has_f:
                st["fundamentalPrice"] = price + 5
            groups[nme] = st
            want[nme] = (float(price + 5 if has_f else price), drift if has_d else 0.0, vol if has_v else 0.0)
        # the generator API takes the same parameters as plain numbers of either type: an int drift is the same drift
        twins = []
        for d0, d1 in ((0, -1), (0.0, -1.0)):
            ff = Fundamentals(prng=random.Random(5))
            ff.add_market(market_id=0, initial=100.0, drift=d0, volatility=0.02)
            ff.add_market(market_id=1, initial=200.0, drift=d1, volatility=0.0)
            twins.append([ff.get_fundamental_price(k, t) for k in (0, 1) for t in range(4)])
        g.require(all(abs(a - b) <= 1e-9 * abs(b) for a, b in zip(*twins)), "C12.int-drift!=float-drift",
                  f"drifts given as ints give another path than the same drifts given as floats: {twins}")
        order = [base[i][0] for i in case["perm"]]
        markets = {n: groups[n] for n in order}
        st = rn.base_settings(n_agents=1, sessions=[rn.session(0, 3, False, False)], markets=markets)
        st["A"]["markets"] = [order[0]]
        ctx = rn.make_run(g, st, {"acts": ["none"]})
        sim = ctx.sim
        f = sim.fundamentals
        seen_param = False
        for nme in order:
            ms = sim.markets_group_name2market[nme] if hasattr(sim, "markets_group_name2market") else \
                [m for m in sim.markets if m.name.startswith(nme)]
            g.require(len(ms) == (2 if nme == "GB" else 1), "C12.harness:group-size")
            w = want[nme]
            if seen_param and (w[1] == 0.0 or w[2] == 0.0):
                g.note("nontrivial")
            if w[1] != 0.0 or w[2] != 0.0:
                seen_param = True
            for m in ms:
                got = (f.initials[m.market_id], f.drifts[m.market_id], f.volatilities[m.market_id])
                g.require(got == w, "C12.registered-parameters!=configuration",
                          f"market {m.name}: initial/drift/volatility registered as {got}, configured {w}")
        ctx.runner._run()
        for nme in order:
            w = want[nme]
            if w[2] == 0.0:
                for m in [m for m in sim.markets if m.name.startswith(nme)]:
                    for t in range(3):
                        g.require(abs(m.get_fundamental_price(t) - w[0] * math.exp(w[1] * t)) <= 1e-9 * w[0],
                                  "C12.zero-volatility-path!=initial*exp(drift*t)", f"{m.name} t={t}")
                    g.note("zero-volatility-path-checked")


class C12_ConfiguredParameters(ConfiguredParameters):
    pass

import sys, random, warnings, time, copy
sys.path.insert(0, "/tmp/probe")
import z3, numpy as np
from sx import Engine, SReal, SInt, SNum, SBool
warnings.simplefilter("ignore")
from pams.runners import SequentialRunner
from pams.agents import Agent
from pams.events import EventABC, EventHook
EXP = z3.Function("EXP", z3.RealSort(), z3.RealSort())
def _exp(self):
    e = EXP(self.e if self.e.sort()==z3.RealSort() else z3.ToReal(self.e)); self.g.solver.add(e > 0); return SReal(self.g, e)
SNum.exp = _exp
class Quiet(Agent):
    def submit_orders(self, markets): return []
OBS = []
class Watch(EventABC):
    def hook_registration(self):
        return [EventHook(event=self, hook_type="market", is_before=False)]
    def hooked_after_step_for_market(self, simulator, market):
        OBS.append((market.get_time(), market.name, market.get_fundamental_price()))
cfg = {
 "simulation": {"markets": ["M1", "M2", "IDX"], "agents": ["A"], "sessions": [
     {"sessionName": 0, "iterationSteps": 2, "withOrderPlacement": True, "withOrderExecution": False, "withPrint": False},
     {"sessionName": 1, "iterationSteps": 4, "withOrderPlacement": True, "withOrderExecution": True, "withPrint": False, "events": ["FS", "W"]}]},
 "M1": {"class": "Market", "tickSize": 1.0, "marketPrice": 300.0, "outstandingShares": 100, "fundamentalDrift": 0.0},
 "M2": {"class": "Market", "tickSize": 1.0, "marketPrice": 500.0, "outstandingShares": 300},
 "IDX": {"class": "IndexMarket", "tickSize": 1.0, "marketPrice": 450.0, "markets": ["M1", "M2"]},
 "A": {"class": "Quiet", "numAgents": 1, "markets": ["M1", "M2", "IDX"], "assetVolume": 50, "cashAmount": 10000},
 "FS": {"class": "FundamentalPriceShock", "target": "M2", "triggerTime": 1, "priceChangeRate": -0.1, "shockTimeLength": 2},
 "W": {"class": "Watch"},
}
def h(g):
    OBS.clear()
    r = SequentialRunner(settings=copy.deepcopy(cfg), prng=random.Random(1))
    r.class_register(Quiet); r.class_register(Watch); r._setup()
    r.simulator.fundamentals._generate_chunk_size = 3
    rate = g.fresh_real("rate"); g.assume(rate > -1)
    [e for e in r.simulator.events if e.name == "FS"][0].price_change_rate = rate
    r._run()
    for o in OBS: print(o[0], o[1], o[2] if not isinstance(o[2], SNum) else z3.simplify(o[2].e))
g = Engine(); res = g.explore(h)
print(f"paths={g.paths} q={g.queries}", "VIOL" if res else "ok")
import traceback
for e, m in res: traceback.print_exception(e)

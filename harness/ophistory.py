"""C04 / C08: histories of operations on one real Market (add / cancel / tick / running switch), a real
matching round after every accepted order or cancel while running, with a reference book kept by the
oracle from the log stream and the property text."""
import itertools

from pams.logs import CancelLog, ExecutionLog, ExpirationLog, OrderLog
from pams.order import Cancel, Order, LIMIT_ORDER, MARKET_ORDER

from sx import sand, sor, snot, ite, is_sym, aeq
from sx.driver import Harness
from .common import RecLogger, mk_market, new_order, ranks_before, tick, PRICE_HI, VOL_HI

TTL_HI = 3


class Ref:
    """what the property text says the book must be, derived from accepted orders, fills seen in the
    log stream, cancels issued and the clock."""

    def __init__(self):
        self.orders = []     # dict(id, is_buy, is_market, price, volume, time, ttl, filled, state, obj)

    def live(self, is_buy=None):
        return [o for o in self.orders if o["state"] == "live" and (is_buy is None or o["is_buy"] == is_buy)]

    def depth(self, g, is_buy):
        """list of (price|None, total remaining volume) over live orders, grouped by equal price."""
        groups = []
        for o in self.live(is_buy):
            rem = o["volume"] - o["filled"]
            for grp in groups:
                if (grp[0] is None and o["price"] is None) or \
                        (grp[0] is not None and o["price"] is not None and bool(grp[0] == o["price"])):
                    grp[1] = grp[1] + rem
                    break
            else:
                groups.append([o["price"], rem])
        return groups

    def best(self, is_buy):
        """the live order that ranks before all others of its side (None if the side is empty)."""
        lv = self.live(is_buy)
        best = None
        for o in lv:
            if best is None or bool(ranks_before(o, best)):
                best = o
        return best


class OpHistory(Harness):
    name = "OpHistory"
    title = "operation histories on one real Market with a real round after each order/cancel while running"
    what_symbolic = ("limit prices in [1,1e6], volumes in [1,1e4], time-to-live in [1,3] (or none); the op "
                     "sequence (add buy/sell limit/market, cancel any earlier order, clock tick, running switch) "
                     "is the case split = every agent program within the length bound")
    nontrivial_event = "at least one fill happened in the history"
    n_ops = {"quick": 3, "thorough": 4}
    bounds = {"quick": "A: histories of up to 3 operations after one opening order; B: 2-3 orders accumulated while "
                       "the market is not running (optionally a tick), the switch to running, then 1 operation; "
                       "ttl none or symbolic in [1,3]",
              "thorough": "A: up to 4 operations; B: tail of up to 2 operations"}
    props = ("C04", "C08")
    with_switch = True
    with_stopped_prefix = True
    reach = ("nontrivial", "expiry", "partial-fill", "cancel-of-filled", "cancel-of-expired")
    assumptions = ("prices on the tick grid (tick 1); off-grid prices are C19's subject",
                   "Market.chunk_size is set to 2 so that the series storage is extended inside short histories",
                   "the market is driven the way SequentialRunner drives it: a round after every accepted "
                   "order/cancel iff the market is running")
    outside = ("histories longer than the stated number of operations", "float rounding of price sums")
    agreement_runs = 24

    def alphabet(self, n_added):
        adds = ["BL", "SL", "BM", "SM"]
        out = list(adds) + ["T"] + [["C", i] for i in range(n_added)]
        if self.with_switch:
            out.append("X")
        return out

    def _gen(self, n, n_added):
        if n == 0:
            yield []
            return
        for a in self.alphabet(n_added):
            for rest in self._gen(n - 1, n_added + (1 if isinstance(a, str) and len(a) == 2 else 0)):
                yield [a] + rest

    def cases(self, tier):
        out = []
        N = self.n_ops[tier]
        for first in ("BL", "BM"):          # side symmetry is NOT assumed: sells are in the alphabet
            for n in range(1, N + 1):
                for ops in self._gen(n, 1):
                    # prune histories whose last op cannot matter for any oracle and that are covered by
                    # their prefix: trailing 'X' (switch with nothing after it)
                    if ops[-1] == "X":
                        continue
                    uses_ttl = "T" in ops
                    for ttl in (("none", "sym") if uses_ttl else ("none",)):
                        out.append({"ops": [first] + ops, "ttl": ttl})
                    # short histories again with the price 0 admitted (a limit below one tick is floored to it)
                    if n <= 2 and "C08" in self.props and sum(isinstance(a, str) and a[-1] == "L" for a in [first] + ops) >= 1:
                        out.append({"ops": [first] + ops, "ttl": "none", "zero": True})
        # family B: a book accumulated while the market is NOT running (adds only, possibly crossed), then
        # the switch to running, then a short tail -- the state a no-execution session or a halt leaves
        if self.with_stopped_prefix:
            tail_len = 1 if tier == "quick" else 2
            for k in (2, 3):
                for pre in itertools.product(("BL", "SL", "BM", "SM"), repeat=k):
                    if k == 3 and tier == "quick" and sum(x[1] == "M" for x in pre) > 1:
                        continue
                    for n in range(1, tail_len + 1):
                        for tail in self._gen(n, k):
                            if tail[-1] == "X" or (k == 3 and n == 2 and tier == "thorough" and "X" in tail):
                                continue
                            for pre_tick in ((False, True) if k == 2 else (False,)):
                                ops = list(pre) + (["T"] if pre_tick else []) + ["X"] + tail
                                uses_ttl = "T" in ops
                                for ttl in (("none", "sym") if uses_ttl else ("none",)):
                                    out.append({"ops": ops, "ttl": ttl, "start_running": False})
        # family C: long single-side skeletons around the expiry bookkeeping (an expiry slot emptied by a cancel
        # or a fill, another expiry in between, the slot reused by a later order, the clock passing it)
        if self.with_stopped_prefix:
            for side in ("BL", "SL"):
                other = "SL" if side == "BL" else "BL"
                for ci in (0, 1):
                    out.append({"ops": [side, side, ["C", ci], "T", "T", side, "T", "T"], "ttl": "sym"})
                    out.append({"ops": [side, side, "T", ["C", ci], "T", side, "T", "T", "T"], "ttl": "sym"})
                out.append({"ops": [side, side, other, "T", "T", side, "T", "T", other], "ttl": "sym"})
        # a trade at a new price after a clock step, then the switch to not running and one more book event in
        # the same step (what a trading halt fired by a fill does)
        if "C08" in self.props:
            for a, b in (("BL", "SM"), ("SL", "BM"), ("BL", "SL"), ("SL", "BL")):
                for last in (a, b, ["C", 0]):
                    out.append({"ops": [a, "T", b, "X", last], "ttl": "none"})
                    out.append({"ops": [a, "T", a, b, "X", last], "ttl": "none"})
        for first in ("SL", "SM"):
            for n in range(1, min(N, 2) + 1):
                for ops in self._gen(n, 1):
                    if ops[-1] == "X":
                        continue
                    uses_ttl = "T" in ops
                    for ttl in (("none", "sym") if uses_ttl else ("none",)):
                        out.append({"ops": [first] + ops, "ttl": ttl})
        return out

    # ---- the run
    def run(self, g, case):
        lg = RecLogger()
        m = mk_market(tick=1, price=300, logger=lg, running=case.get("start_running", True), chunk=2)
        ref = Ref()
        st = {"last_trade": None, "seen": 0, "fills_t": {}, "nb_t": {}, "ns_t": {}, "mid": m.get_mid_price(),
              "mp": m.get_market_price(), "ever_trade": False}
        self._sync_logs(g, m, lg, ref, st)
        for k, op in enumerate(case["ops"]):
            running = m.is_running
            mp_before = m.get_market_price()
            mid_before = m.get_mid_price()
            if op == "T":
                tick(m)
                self._after_tick(g, m, lg, ref, st, mp_before, mid_before)
            elif op == "X":
                m._is_running = not m._is_running
                g.note("switch")
            elif isinstance(op, list):
                o = ref.orders[op[1]]
                if o["state"] == "filled":
                    g.note("cancel-of-filled")
                if o["state"] == "expired":
                    g.note("cancel-of-expired")
                if o["state"] == "cancelled":
                    g.note("cancel-twice")
                clog = m._cancel_order(Cancel(order=o["obj"]))
                if o["state"] == "live":
                    o["state"] = "cancelled"
                    o["terminal_volume"] = o["volume"] - o["filled"]
                o["cancel_seen"] = True
                if "C04" in self.props:
                    g.require(clog.order_id == o["id"], "C04.cancel-log-names-order")
                    if o.get("first_terminal") is None:
                        o["first_terminal"] = clog.volume
                if m.is_running:
                    m._execution()
                self._after_event(g, m, lg, ref, st, running, mp_before)
            else:
                is_buy, mk = op[0] == "B", op[1] == "M"
                ttl = g.int(f"ttl{k}", 1, TTL_HI) if case["ttl"] == "sym" else None
                o = new_order(g, str(k), is_buy=is_buy, market=mk, ttl=ttl, price_lo=0 if case.get("zero") else 1)
                vol, price = o.volume, o.price
                olog = m._add_order(o)
                ref.orders.append({"id": olog.order_id, "is_buy": is_buy, "is_market": mk, "price": price,
                                   "volume": vol, "time": m.get_time(), "ttl": ttl, "filled": 0,
                                   "state": "live", "obj": o, "first_terminal": None})
                key = m.get_time()
                d = st["nb_t"] if is_buy else st["ns_t"]
                d[key] = d.get(key, 0) + 1
                if "C04" in self.props:
                    g.require(sand(olog.volume == vol, olog.time == m.get_time()), "C04.order-log-fields")
                if m.is_running:
                    m._execution()
                self._after_event(g, m, lg, ref, st, running, mp_before)
        self._final(g, m, lg, ref, st)

    # ---- oracle pieces
    def _sync_logs(self, g, m, lg, ref, st):
        """fold the new records of the log stream into the reference book."""
        recs = lg.distinct()
        new = recs[st["seen"]:]
        st["seen"] = len(recs)
        st["round_fills"] = [r for r in new if isinstance(r, ExecutionLog)]
        byid = {o["id"]: o for o in ref.orders}
        for r in new:
            if isinstance(r, ExecutionLog):
                g.note("nontrivial")
                st["ever_trade"] = True
                st["last_trade"] = r.price
                t = r.time
                f = st["fills_t"].setdefault(t, [])
                f.append(r)
                for oid, want_buy in ((r.buy_order_id, True), (r.sell_order_id, False)):
                    o = byid.get(oid)
                    if o is None:
                        if "C04" in self.props:
                            g.require(False, "C04.fill-of-unknown-order", f"fill names order {oid}")
                        continue
                    if "C04" in self.props:
                        g.require(o["is_buy"] == want_buy, "C04.fill-side")
                        g.require(o["state"] != "cancelled", "C04.fill-after-cancel",
                                  f"order {oid} filled after its cancel")
                        g.require(o["state"] != "expired", "C04.fill-after-expiry",
                                  f"order {oid} filled after it expired")
                        if o["ttl"] is not None:
                            g.require(r.time <= o["time"] + o["ttl"], "C04.fill-later-than-ttl",
                                      f"order {oid} filled at a time later than acceptance + ttl")
                        g.require(r.volume > 0, "C04.fill-positive")
                    o["filled"] = o["filled"] + r.volume
                    if "C04" in self.props:
                        g.require(o["filled"] <= o["volume"], "C04.overfill",
                                  f"order {oid} filled beyond its accepted volume")
                    if o["state"] == "live":
                        if o["filled"] == o["volume"]:
                            o["state"] = "filled"
                        else:
                            g.note("partial-fill")
            elif isinstance(r, ExpirationLog):
                g.note("expiry")
                o = byid.get(r.order_id)
                if "C04" in self.props:
                    g.require(o is not None and o["ttl"] is not None, "C04.expiry-of-unknown-order")
                    g.require(o.get("expiry_logged") is None, "C04.expired-twice")
                    g.require(sand(r.time == m.get_time(), o["time"] + o["ttl"] < r.time,
                                   o["time"] + o["ttl"] >= r.time - 1),
                              "C04.expiry-at-wrong-time", f"order {r.order_id} expired at {r.time}")
                    g.require(o["state"] == "live", "C04.expiry-of-dead-order",
                              f"order {r.order_id} reported expired but it was {o['state']}")
                    g.require(r.volume == o["volume"] - o["filled"], "C04.expiry-volume")
                if o is not None:
                    o["expiry_logged"] = True
                    if o.get("first_terminal") is None:
                        o["first_terminal"] = r.volume
                    if o["state"] == "live":
                        o["state"] = "expired"

    def _check_book(self, g, m, ref, st):
        """depth, best quotes and positivity of resting volume, against the reference."""
        for is_buy in (True, False):
            book = m.get_buy_order_book() if is_buy else m.get_sell_order_book()
            refd = ref.depth(g, is_buy)
            items = list(book.items())
            ok = len(items) == len(refd)
            g.require(ok, "C04.book-membership" if "C04" in self.props else "C08.depth",
                      f"{'buy' if is_buy else 'sell'} depth has {len(items)} price levels, the live orders have {len(refd)}")
            for price, vol in items:
                g.require(vol > 0, "C04.resting-volume-positive")
                match = None
                for rp, rv in refd:
                    if (price is None and rp is None) or (price is not None and rp is not None and bool(price == rp)):
                        match = rv
                g.require(match is not None, "C04.book-membership" if "C04" in self.props else "C08.depth",
                          "a price level in the book has no live order")
                g.require(vol == match, "C08.depth" if "C08" in self.props else "C04.book-membership",
                          "depth at a price differs from the live orders' remaining volume")
            if "C08" in self.props:
                b = ref.best(is_buy)
                got = m.get_best_buy_price() if is_buy else m.get_best_sell_price()
                if b is None or b["is_market"]:
                    g.require(got is None, "C08.best-price")
                else:
                    g.require(got is not None and got == b["price"], "C08.best-price",
                              "best quote differs from the best live order's price")

    def _ref_mid(self, ref):
        b, s = ref.best(True), ref.best(False)
        if b is None or s is None or b["is_market"] or s["is_market"]:
            return None
        return (b["price"] + s["price"]) / 2.0

    def _check_round_prices(self, g, ref, fills):
        """C01 on the fills of one round (the records written since the previous operation)."""
        if not fills:
            return
        byid = {o["id"]: o for o in ref.orders}
        for f in fills:
            b, s_ = byid.get(f.buy_order_id), byid.get(f.sell_order_id)
            g.require(b is not None and s_ is not None and b["is_buy"] and not s_["is_buy"], "C01.pairs-buy-with-sell")
            if not b["is_market"]:
                g.require(f.price <= b["price"], "C01.price<=buy-limit", "fill above the buyer's limit")
            if not s_["is_market"]:
                g.require(f.price >= s_["price"], "C01.price>=sell-limit", "fill below the seller's limit")
            g.require(f.price == fills[0].price, "C01.one-price-per-round")
        last = fills[-1]
        b, s_ = byid[last.buy_order_id], byid[last.sell_order_id]
        g.require(not (b["is_market"] and s_["is_market"]), "C01.last-pair-has-limit")
        if b["is_market"]:
            expect = s_["price"]
        elif s_["is_market"]:
            expect = b["price"]
        else:
            b_first = sor(b["time"] < s_["time"], sand(b["time"] == s_["time"], b["id"] < s_["id"]))
            expect = ite(b_first, b["price"], s_["price"])
        g.require(last.price == expect, "C01.price-of-earlier-order-of-last-pair",
                  "round price is not the limit of the earlier-accepted order of the last matched pair")
        if len(fills) >= 2:
            g.note("multi-fill")

    def _after_event(self, g, m, lg, ref, st, was_running, mp_before):
        self._sync_logs(g, m, lg, ref, st)
        if "C01" in self.props:
            self._check_round_prices(g, ref, st["round_fills"])
            return
        if "C03" in self.props:
            if m.is_running:
                from .matching import _Monitors
                _Monitors(g, ("C03",)).check_uncrossed(m)
            return
        self._check_book(g, m, ref, st)
        if "C08" in self.props:
            mid = self._ref_mid(ref)
            got_mid = m.get_mid_price()
            if mid is None:
                g.require(got_mid is None, "C08.mid-refreshed", "mid price should be undefined")
            else:
                g.require(got_mid is not None and got_mid == mid, "C08.mid-refreshed",
                          "mid price is not the mean of the best quotes after a book event")
            mp = m.get_market_price()
            if m.is_running:
                if st["ever_trade"]:
                    g.require(mp == st["last_trade"], "C08.market-price=last-trade",
                              "market price differs from the most recent trade price")
                elif mid is not None:
                    g.require(mp == mid, "C08.market-price=mid", "no trade yet: market price should be the mid quote")
                else:
                    g.require(mp == mp_before, "C08.market-price-kept")
            else:
                g.require(mp == mp_before, "C08.market-price-frozen-while-not-running",
                          "market price moved while the market was not running")
                g.note("event-while-stopped")
            self._check_stats(g, m, st)

    def _after_tick(self, g, m, lg, ref, st, mp_before, mid_before):
        self._sync_logs(g, m, lg, ref, st)
        if "C03" in self.props or "C01" in self.props:
            return
        now = m.get_time()
        if "C04" in self.props:
            for o in ref.orders:
                if o["ttl"] is not None and o["state"] == "live":
                    g.require(o["time"] + o["ttl"] >= now, "C04.overstays-ttl",
                              f"order {o['id']} still in the book after acceptance + ttl")
        self._check_book(g, m, ref, st)
        if "C08" in self.props:
            got_mid = m.get_mid_price()
            if mid_before is None:
                g.require(got_mid is None, "C08.mid-carried")
            else:
                g.require(got_mid is not None and got_mid == mid_before, "C08.mid-carried",
                          "mid price not carried over at the clock step")
            mp = m.get_market_price()
            if m.is_running:
                cands = [mp == mp_before]
                if st["ever_trade"]:
                    cands.append(mp == st["last_trade"])
                if mid_before is not None:
                    cands.append(mp == mid_before)
                g.require(sor(*cands), "C08.market-price-at-tick")
            else:
                g.require(mp == mp_before, "C08.market-price-frozen-while-not-running",
                          "market price moved at a clock step while not running")
            lt = m.get_last_executed_price()
            if st["ever_trade"]:
                g.require(lt is not None and lt == st["last_trade"], "C08.last-trade-carried")
            else:
                g.require(lt is None, "C08.last-trade-carried")
            self._check_stats(g, m, st)

    def _check_stats(self, g, m, st):
        now = m.get_time()
        tot_v, tot_p = 0, 0
        for t in range(now + 1):
            fs = st["fills_t"].get(t, [])
            v = sum(f.volume for f in fs)
            p = sum(f.price * f.volume for f in fs)
            tot_v, tot_p = tot_v + v, tot_p + p
            g.require(m.get_executed_volume(t) == v, "C08.executed-volume", f"step {t}")
            g.require(m.get_executed_total_price(t) == p, "C08.turnover", f"step {t}")
            g.require(m.get_n_buy_order(t) == st["nb_t"].get(t, 0), "C08.n-buy-orders", f"step {t}")
            g.require(m.get_n_sell_order(t) == st["ns_t"].get(t, 0), "C08.n-sell-orders", f"step {t}")
        vw = m.get_vwap()
        if not st["ever_trade"]:
            g.require(vw != vw, "C08.vwap-nan-without-volume")
        else:
            # same quotient, built the same way: z3's normal form makes both sides one term (no nonlinear query)
            g.require(aeq(vw, tot_p / tot_v), "C08.vwap", "VWAP differs from cumulative turnover / volume")

    def _final(self, g, m, lg, ref, st):
        if "C04" not in self.props:
            return
        for o in ref.orders:
            rest = o["volume"] - o["filled"]
            if o["first_terminal"] is not None:
                g.require(o["volume"] == o["filled"] + o["first_terminal"], "C04.accounting",
                          f"order {o['id']}: accepted != fills + volume at first terminal event")
            else:
                # still resting (or fully filled): what the agent's order object shows is the remainder
                g.require(o["obj"].volume == rest, "C04.accounting",
                          f"order {o['id']}: accepted != fills + resting volume")
                if o["state"] == "live":
                    g.require(rest > 0, "C04.resting-volume-positive")
        # each accepted order object appears in exactly one OrderLog
        ids = [r.order_id for r in lg.distinct(OrderLog)]
        g.require(len(ids) == len(set(ids)) == len(ref.orders), "C04.accepted-once")
        for x in lg.distinct(ExecutionLog):
            g.observe(x.price)
            g.observe(x.volume)
        g.observe(m.get_market_price())


class NegativeOps(Harness):
    """re-submission, foreign market, cancel of a never-submitted order: refused, nothing changes."""
    name = "NegativeOps"
    title = "an order object is accepted at most once and only by the market it names"
    what_symbolic = "prices, volumes, ttl of the orders; which refused operation follows which history is the case split"
    nontrivial_event = "every path (each ends in a refused operation)"
    bounds = {"quick": "history of 2 orders (+ optional cancel / tick / fill) then one refused operation",
              "thorough": "same"}
    reach = ("nontrivial", "resubmit-filled", "resubmit-cancelled", "resubmit-expired", "resubmit-resting")
    agreement_runs = 8

    def cases(self, tier):
        out = []
        for state in ("resting", "filled", "cancelled", "expired", "partial"):
            for neg in ("resubmit", "wrong-market", "cancel-unsubmitted", "cancel-wrong-market"):
                for is_buy in (True, False):
                    out.append({"state": state, "neg": neg, "is_buy": is_buy})
        return out

    def run(self, g, case):
        lg = RecLogger()
        m = mk_market(tick=1, price=300, logger=lg, running=True)
        is_buy = case["is_buy"]
        ttl = g.int("ttl", 1, 2) if case["state"] == "expired" else None
        o = new_order(g, "a", is_buy=is_buy, ttl=ttl)
        vol = o.volume
        m._add_order(o)
        m._execution()
        if case["state"] in ("filled", "partial"):
            c = new_order(g, "b", is_buy=not is_buy, market=True)
            cvol = c.volume
            if case["state"] == "filled":
                g.assume(cvol >= vol)
            else:
                g.assume(cvol < vol)
            m._add_order(c)
            m._execution()
            if c.volume > 0:
                m._cancel_order(Cancel(order=c))
        elif case["state"] == "cancelled":
            m._cancel_order(Cancel(order=o))
        elif case["state"] == "expired":
            for _ in range(3):
                tick(m)
        g.note("nontrivial")
        g.note("resubmit-" + case["state"] if case["neg"] == "resubmit" and case["state"] != "partial" else "other")
        snap = self._snapshot(m, lg)
        raised = None
        try:
            if case["neg"] == "resubmit":
                m._add_order(o)
            elif case["neg"] == "wrong-market":
                m._add_order(new_order(g, "w", is_buy=is_buy, market_id=7))
            elif case["neg"] == "cancel-unsubmitted":
                m._cancel_order(Cancel(order=new_order(g, "u", is_buy=is_buy)))
            else:
                m._cancel_order(Cancel(order=new_order(g, "v", is_buy=is_buy, market_id=7)))
        except ValueError as e:
            raised = e
        g.require(raised is not None, "C04.invalid-submission-accepted", f"{case['neg']} was not refused")
        after = self._snapshot(m, lg)
        g.require(len(snap) == len(after) and all(bool(a == b) if not isinstance(a, dict) else self._deq(a, b)
                                                   for a, b in zip(snap, after)),
                  "C04.refused-operation-had-effect", f"{case['neg']} changed the market state")

    @staticmethod
    def _deq(a, b):
        if len(a) != len(b):
            return False
        for (k1, v1), (k2, v2) in zip(a.items(), b.items()):
            if (k1 is None) != (k2 is None) or (k1 is not None and not bool(k1 == k2)) or not bool(v1 == v2):
                return False
        return True

    @staticmethod
    def _snapshot(m, lg):
        return [len(lg.written), m.get_buy_order_book(), m.get_sell_order_book(), m.get_market_price(),
                m.get_n_buy_order(), m.get_n_sell_order(), m.get_mid_price()]


class C04_OpHistory(OpHistory):
    props = ("C04",)
    with_switch = False
    reach = ("nontrivial", "expiry", "partial-fill", "cancel-of-filled", "cancel-of-expired", "cancel-twice")


class C04_NegativeOps(NegativeOps):
    pass


class C08_OpHistory(OpHistory):
    props = ("C08",)
    with_switch = True
    reach = ("nontrivial", "expiry", "partial-fill", "switch", "event-while-stopped")


class C03_OpHistory(OpHistory):
    """the round that follows every accepted order / cancel leaves no executable pair (incl. after cancels and
    expiries un-block market orders resting on both sides)"""
    props = ("C03",)
    with_switch = False
    reach = ("nontrivial", "expiry", "post:uncrossed-two-sided", "post:both-market")


class C01_OpHistory(OpHistory):
    """C01 along histories with cancels, expiries, clock steps and crossed books accumulated while not running"""
    props = ("C01",)
    with_switch = True
    reach = ("nontrivial", "expiry", "multi-fill", "switch")

"""C05 / C10 / C11 on the real SequentialRunner with scripted agents (RN driver)."""
import itertools

from pams.logs import (CancelLog, ExecutionLog, ExpirationLog, MarketStepBeginLog, MarketStepEndLog,
                       OrderLog, SessionBeginLog, SessionEndLog, SimulationBeginLog, SimulationEndLog)
from pams.order import Cancel, Order, MARKET_ORDER

from sx import sand, sor, snot
from sx.driver import Harness
from . import rn


class RunnerBasics(Harness):
    name = "RunnerBasics"
    title = "real SequentialRunner runs with scripted agents: holdings, logger stream, callbacks"
    what_symbolic = ("every scripted decision (act or not, side, limit/market, price in [1,1e6], volume in "
                     "[1,1e4], which own order to cancel), the activation order of agents (any permutation from "
                     "the runner's generator), the order in which batches are handled, HFT draws")
    nontrivial_event = "at least one fill happened in the run"
    props = ("C05", "C10", "C11")
    reach = ("nontrivial", "self-trade", "multi-fill-round")
    assumptions = (rn.REDUCTION_NOTE,
                   
        "scripted agents stand for arbitrary user agents within the bound of orders per consultation",
        "the runner's random.Random is replaced by a stub whose sample() returns any permutation and whose "
        "random() returns any real in [0,1); randint (child seeds) is a counter",
        "exact real arithmetic for cash (the property allows floating-point rounding; none occurs here)")
    outside = ("more agents / steps / markets than the stated bounds", "floating-point rounding of cash")
    agreement_runs = 10
    bounds = {
        "quick": "(markets,agents,hft,steps) in {(1,2,0,2) limit orders, (1,2,0,1) limit+market+cancel, "
                 "(1,1,1,1), (2,2,0,1), batch clearing after a 1-step no-execution session} plus scripted families: "
                 "HFT sweep of two resting orders, HFT batch of two items, cancels of filled/expired orders, two "
                 "markets hit in any order with two items per consultation, a run on plain python numbers with the prices 0, 0.4 and 2, "
                 "agents whose call-backs are bound on the instance in setup()",
        "thorough": "adds (1,3,0,1) with limit and market orders and (2,2,0,2) with limit orders",
    }

    def cases(self, tier):
        L = ["none", "limit"]
        LM = ["none", "limit", "market"]
        LMC = ["none", "limit", "market", "cancel"]
        out = [
            {"M": 1, "A": 2, "H": 0, "S": 2, "acts": L, "pre": 0, "cap": 2},
            {"M": 1, "A": 2, "H": 0, "S": 1, "acts": LM, "pre": 0, "cap": 2, "ttl": [None, 1]},
            {"M": 1, "A": 2, "H": 0, "S": 2, "acts": ["none", "limit", "cancel"], "pre": 0, "cap": 1, "ttl": [1]},
            {"M": 1, "A": 1, "H": 1, "S": 1, "acts": LM, "pre": 0, "cap": 1},
            {"M": 2, "A": 2, "H": 0, "S": 1, "acts": L, "pre": 0, "cap": 2},
            {"M": 1, "A": 2, "H": 0, "S": 1, "acts": L, "pre": 1, "cap": 2},
            {"M": 1, "A": 1, "H": 0, "S": 2, "acts": LM, "pre": 0, "cap": 1},
            {"M": 2, "A": 1, "H": 0, "S": 1, "acts": L, "pre": 0, "cap": 1, "empty_sessions": True, "ttl": [1, None]},
            # orders with a time-to-live of one step placed in a two-step session without execution (they expire
            # while the market is not running)
            {"M": 1, "A": 2, "H": 0, "S": 1, "acts": L, "pre": 2, "cap": 2, "ttl": [1], "script": "expire-in-pre"},
            # agents whose call-backs are bound on the instance in setup()
            {"M": 1, "A": 2, "H": 0, "S": 1, "acts": ["none", "limit", "cancel"], "pre": 1, "cap": 2, "late": True,
             "script": "late"},
            # two resting sells from a no-execution step, then an HFT buyer sweeping them in its own branch
            {"M": 1, "A": 2, "H": 1, "S": 1, "acts": L, "pre": 1, "cap": 2, "script": "hft-sweep"},
            # an HFT batch of two items (order/cancel) with a fill after the first one
            {"M": 1, "A": 1, "H": 1, "S": 1, "acts": L, "pre": 0, "cap": 1, "script": "hft-batch"},
            # both agents trade at t=0, then cancel (filled / resting) orders at t=1
            {"M": 1, "A": 2, "H": 0, "S": 2, "acts": L, "pre": 0, "cap": 2, "script": "cancel-filled"},
            # the same with cancel requests that already carry a time stamp / are handed in a second time
            {"M": 1, "A": 2, "H": 0, "S": 2, "acts": L, "pre": 0, "cap": 2, "script": "cancel-filled", "cancel_objects": "stamped"},
            {"M": 1, "A": 1, "H": 0, "S": 3, "acts": L, "pre": 0, "cap": 1, "script": "cancel-again", "cancel_objects": "reused"},
            # two markets, agents free to hit them in any order (records must keep the global event order)
            {"M": 2, "A": 2, "H": 0, "S": 1, "acts": L, "pre": 0, "cap": 2, "script": "two-markets"},
            # the same after a step without execution (books of both markets may be crossed when execution starts)
            {"M": 2, "A": 2, "H": 0, "S": 1, "acts": L, "pre": 1, "cap": 2, "script": "two-markets-pre"},
            # a crossed book left by a no-execution step is cleared by the round a third agent's order starts
            {"M": 1, "A": 3, "H": 0, "S": 1, "acts": L, "pre": 1, "cap": 3, "script": "bystander"},
            # a trading halt fired by a fill, orders accepted during the halt, resumption: 3 agents, 4 steps
            {"M": 1, "A": 3, "H": 0, "S": 4, "acts": L, "pre": 0, "cap": 3, "script": "halt"},
            # the halting round has two fills (a seller of two lots sweeping both bids), 2 steps
            {"M": 1, "A": 3, "H": 0, "S": 2, "acts": L, "pre": 0, "cap": 3, "script": "halt", "sweep": True},
            # plain python numbers only (prices from {0, 0.4, 2}: the zero price, an off-grid price, volumes 1):
            # a buyer and a seller, two steps, limit orders at t=0, limit orders and cancels at t=1
            {"M": 1, "A": 2, "H": 0, "S": 2, "acts": ["none", "limit", "cancel"], "pre": 0, "cap": 2, "script": "plain-numbers"},
        ]
        if tier == "thorough":
            # (measured: with cancels and market orders over two steps, or a high-frequency agent over two steps,
            # the space exceeds 1.5 million paths and does not finish in 45 minutes; those are left out)
            out += [
                {"M": 1, "A": 3, "H": 0, "S": 1, "acts": LM, "pre": 0, "cap": 3},
                {"M": 2, "A": 2, "H": 0, "S": 2, "acts": L, "pre": 0, "cap": 2},
            ]
        return out

    def run(self, g, case):
        markets = {f"M{i}": {"class": "Market", "tickSize": 1, "marketPrice": 300} for i in range(case["M"])}
        sessions = []
        if case["pre"]:
            sessions.append(rn.session("pre", case["pre"], True, False, maxNormalOrders=case["cap"]))
        if case.get("empty_sessions"):
            sessions.append(rn.session("empty-first", 0, True, True, maxNormalOrders=case["cap"]))
        sessions.append(rn.session("main", case["S"], True, True, maxNormalOrders=case["cap"],
                                   maxHighFrequencyOrders=1))
        if case.get("empty_sessions"):
            # sessions of zero steps and a closed session (no placement) still have their begin / end / step records
            sessions.append(rn.session("empty-mid", 0, True, False, maxNormalOrders=case["cap"]))
            sessions.append(rn.session("closed", 2, False, False, maxNormalOrders=case["cap"]))
            sessions.append(rn.session("empty-last", 0, False, False, maxNormalOrders=case["cap"]))
        extra = None
        if case.get("script") == "halt":
            sessions[-1]["events"] = ["HALT"]
            extra = {"HALT": {"class": "TradingHaltRule", "targetMarkets": ["M0"], "triggerChangeRate": 0.1,
                              "haltingTimeLength": 1}}
        st = rn.base_settings(n_agents=case["A"], n_hft=case["H"], sessions=sessions, markets=markets, extra=extra)
        if case.get("late"):
            st["A"]["class"] = "LateBoundAgent"
        menu = {"acts": case["acts"], "ttl": case.get("ttl", [None])}
        sc = case.get("script")
        if sc == "hft-sweep":       # agents 0,1 normal (sell at t=0, may sell again at t=1), agent 2 HFT (buys at t=1)
            menu = {"vol_hi": 3, "per_agent": {
                "0": {"side": "S", "acts_by_time": {"0": ["limit"], "1": ["none", "limit"]}, "vol_fixed": 1},
                "1": {"side": "S", "acts_by_time": {"0": ["limit"], "1": ["none"]}, "vol_fixed": 1},
                "2": {"side": "B", "active": [1, 1], "acts": ["limit", "market"], "vol_hi": 3}}}
        elif sc == "hft-batch":     # agent 0 normal sells, agent 1 HFT sends two items per consultation
            menu = {"per_agent": {"0": {"side": "S", "acts": ["limit"], "vol_fixed": 1},
                                  "1": {"side": "B", "acts": ["none", "limit", "cancel"], "max_orders": 2, "vol_fixed": 1}}}
        elif sc == "cancel-filled":
            menu = {"vol_fixed": 1, "per_agent": {
                "0": {"side": "B", "acts_by_time": {"0": ["limit"], "1": ["none", "limit", "cancel"]}},
                "1": {"side": "S", "acts_by_time": {"0": ["limit"], "1": ["none", "cancel"]}}}, "ttl": [None, 1]}
        elif sc == "cancel-again":   # one agent: an order at t=0, cancels of it at t=1 and again at t=2
            menu = {"vol_fixed": 1, "per_agent": {"0": {"side": "B"}},
                    "acts_by_time": {"0": ["limit"], "1": ["cancel"], "2": ["cancel"]}}
        elif sc == "bystander":
            menu = {"vol_hi": 2, "price_hi": 1000, "acts": ["limit"],
                    "per_agent": {"0": {"side": "B", "active": [0, 0]}, "1": {"side": "S", "active": [0, 0]},
                                  "2": {"active": [1, 1]}}}
        elif sc == "halt":
            # step 1: agent 0 bids (solver-chosen price), agent 1 sells into it, agent 2 bids again in the same step
            # (after the halt if the fill crossed the 10% line); step 2: quotes at 300 on both sides pile up (halt)
            # or trade; step 3: resumption
            menu = {"vol_fixed": 1, "active_from": 1, "price_by_time": {"1": "sym", "default": 300}, "price_hi": 1000,
                    "acts": ["limit"],
                    "per_agent": {"0": {"side": "B", "active": [1, 2]}, "1": {"side": "S", "active": [1, 2]},
                                  "2": {"side": "B", "active": [1, 1]}}}
            if case.get("sweep"):
                menu["per_agent"]["1"]["vol_fixed"] = 2
        elif sc == "plain-numbers":
            menu = {"vol_fixed": 1, "price_set": [0, 0.4, 2], "ttl": [None],
                    "acts_by_time": {"0": ["limit"], "1": ["none", "limit", "cancel"]},
                    "per_agent": {"0": {"side": "B"}, "1": {"side": "S"}}}
        elif sc == "expire-in-pre":
            menu = {"vol_fixed": 1, "price_hi": 1000, "ttl": [1], "per_agent": {"0": {"side": "B"}, "1": {"side": "S"}},
                    "acts_by_time": {"0": ["limit"], "1": ["none"], "2": ["none", "limit"]}}
        elif sc == "late":     # a buyer and a seller quote one unit at t=0 (no execution), may cancel or quote again at t=1
            menu = {"vol_fixed": 1, "price_hi": 1000, "per_agent": {"0": {"side": "B"}, "1": {"side": "S"}},
                    "acts_by_time": {"0": ["limit"], "1": ["none", "limit", "cancel"]}}
        elif sc == "two-markets-pre":
            menu = {"vol_fixed": 1, "price_hi": 1000, "per_agent": {"0": {"side": "B"}, "1": {"side": "S"}},
                    "acts_by_time": {"0": ["limit"], "1": ["none", "limit"]}}
        elif sc == "two-markets":
            menu = {"vol_fixed": 1, "max_orders": 2, "acts": ["none", "limit"],
                    "per_agent": {"0": {"side": "B"}, "1": {"side": "S"}}}
        if case.get("cancel_objects"):
            menu["cancel_objects"] = case["cancel_objects"]
        mon = _Monitor(g, self.props)
        ctx = rn.make_run(g, st, menu, on_event=mon.on_event)
        mon.start(ctx)
        ctx.runner._run()
        mon.finish()


class _Monitor:
    def __init__(self, g, props):
        self.g = g
        self.props = props
        self.fills = []        # distinct ExecutionLogs in the order the logger first saw them
        self.fill_ids = set()

    def start(self, ctx):
        self.ctx = ctx
        self.sim = ctx.sim
        self.h0 = rn.holdings(ctx.sim)
        self.mids = [m.market_id for m in ctx.sim.markets]

    # ---- online part
    def on_event(self, kind, agent, payload):
        g = self.g
        if kind == "canceled" and ("C10" in self.props or "C11" in self.props):
            # the owner is told right after the cancel was handled: the record carries the present step
            now = self.sim.id2market[payload.market_id].get_time()
            g.require(payload.cancel_time == now,
                      "C10.cancel-record-fields" if "C10" in self.props else "C11.notified-with-another-cancel's-record",
                      f"cancel record of order {payload.order_id} handled at t={now} says cancel_time={payload.cancel_time}")
            if "C11" in self.props:
                seen = self.__dict__.setdefault("cancel_logs_seen", [])
                g.require(not any(x is payload for x in seen), "C11.notified-with-another-cancel's-record",
                          "the owner was handed the same cancel record twice")
                seen.append(payload)
        if kind in ("log-write", "log-direct") and isinstance(payload, ExecutionLog):
            if id(payload) not in self.fill_ids:
                self.fill_ids.add(id(payload))
                self.fills.append(payload)
                g.note("nontrivial")
                if bool(payload.buy_agent_id == payload.sell_agent_id):
                    g.note("self-trade")
        if kind == "executed" and ("C05" in self.props or "C11" in self.props):
            self.check_holdings("at executed_order callback")
        if kind == "consult" and "C05" in self.props and self.fills:
            self.check_holdings("at agent activation")

    def expected_holdings(self):
        exp = {a: [c, dict(v)] for a, (c, v) in self.h0.items()}
        for f in self.fills:
            b, s = exp[f.buy_agent_id], exp[f.sell_agent_id]
            amount = f.price * f.volume
            b[0] = b[0] - amount
            s[0] = s[0] + amount
            b[1][f.market_id] = b[1][f.market_id] + f.volume
            s[1][f.market_id] = s[1][f.market_id] - f.volume
        return exp

    def check_holdings(self, when):
        g = self.g
        tag = "C05" if "C05" in self.props else "C11"
        exp = self.expected_holdings()
        for a in self.sim.agents:
            e = exp[a.agent_id]
            g.require(a.cash_amount == e[0], f"{tag}.cash=endowment+own-fills",
                      f"{when}: agent {a.agent_id} cash differs from endowment folded with the fills reported so far")
            for mid in self.mids:
                if mid in a.asset_volumes:
                    g.require(a.asset_volumes[mid] == e[1][mid], f"{tag}.shares=endowment+own-fills",
                              f"{when}: agent {a.agent_id} shares of market {mid} differ from endowment folded with fills")

    # ---- end of run
    def finish(self):
        g, ctx = self.g, self.ctx
        ev = ctx.events
        if "C05" in self.props:
            self.check_holdings("at the end")
            for mid in self.mids:
                tot0 = sum(v[mid] for _, v in self.h0.values() if mid in v)
                tot1 = sum(a.asset_volumes[mid] for a in self.sim.agents if mid in a.asset_volumes)
                g.require(tot1 == tot0, "C05.shares-conserved")
            g.require(sum(a.cash_amount for a in self.sim.agents) == sum(c for c, _ in self.h0.values()),
                      "C05.cash-conserved")
        rounds = {}
        for f in self.fills:
            rounds.setdefault((f.market_id, f.time), []).append(f)
        if any(len(v) >= 2 for v in rounds.values()):
            g.note("multi-fill-round")
        if "C11" in self.props:
            self.check_callbacks()
        if "C10" in self.props:
            self.check_logger()
        for f in self.fills:
            g.observe(f.price)
            g.observe(f.volume)
        for a in self.sim.agents:
            g.observe(a.cash_amount)

    def _accepted_orders(self):
        out = []
        for aid, os_ in self.ctx.own_orders.items():
            for o in os_:
                if o.placed_at is not None and o.order_id is not None:
                    out.append((aid, o))
        return out

    def _decided(self, cls):
        out = []
        for kind, aid, payload in self.ctx.events:
            if kind == "decided":
                out += [(aid, x) for x in payload if isinstance(x, cls)]
        return out

    def check_callbacks(self):
        g, ev = self.g, self.ctx.events
        sub = [(aid, p) for k, aid, p in ev if k == "submitted"]
        exe = [(aid, p) for k, aid, p in ev if k == "executed"]
        can = [(aid, p) for k, aid, p in ev if k == "canceled"]
        # orders
        for aid, o in self._accepted_orders():
            n = sum(1 for a2, lg in sub if lg.market_id == o.market_id and bool(lg.order_id == o.order_id))
            g.require(n == 1, "C11.submitted-once", f"order {o.order_id} of agent {aid}: {n} submitted_order calls")
        for a2, lg in sub:
            g.require(lg.agent_id == a2, "C11.submitted-to-owner")
            g.require(any(o.market_id == lg.market_id and bool(o.order_id == lg.order_id) and aid == a2
                          for aid, o in self._accepted_orders()), "C11.submitted-for-accepted-order")
        # cancels
        cancels = [(aid, c) for aid, c in self._decided(Cancel) if c.placed_at is not None]
        g.require(len(can) == len(cancels), "C11.canceled-once",
                  f"{len(cancels)} accepted cancels, {len(can)} canceled_order calls")
        for a2, lg in can:
            g.require(lg.agent_id == a2, "C11.canceled-to-owner")
        if cancels:
            g.note("cancel")
        # fills: every distinct fill record goes once to the buyer and once to the seller, nobody else
        for f in self.fills:
            nb = sum(1 for a2, lg in exe if lg is f and a2 == f.buy_agent_id)
            ns = sum(1 for a2, lg in exe if lg is f and a2 == f.sell_agent_id)
            nx = sum(1 for a2, lg in exe if lg is f and a2 != f.buy_agent_id and a2 != f.sell_agent_id)
            if f.buy_agent_id == f.sell_agent_id:
                g.require(nb == 2 and nx == 0, "C11.executed-once-per-party", "self-trade must be notified twice")
            else:
                g.require(nb == 1 and ns == 1 and nx == 0, "C11.executed-once-per-party",
                          f"fill notified {nb}x to buyer, {ns}x to seller, {nx}x to others")
        for a2, lg in exe:
            g.require(any(lg is f for f in self.fills), "C11.executed-with-the-fill-record")
        # fills per order agree with what the book did to the order objects
        for aid, o in self._accepted_orders():
            mine = []
            for a2, lg in exe:
                if a2 == aid and not any(lg is x for x in mine):
                    mine.append(lg)
            got = sum(lg.volume for lg in mine
                      if lg.market_id == o.market_id and (lg.buy_agent_id if o.is_buy else lg.sell_agent_id) == aid
                      and bool((lg.buy_order_id if o.is_buy else lg.sell_order_id) == o.order_id))
            g.require(got == self._v0(o) - o.volume, "C11.fills-match-book",
                      f"order {o.order_id}: notified volume differs from what the book took")

    def _v0(self, o):
        for k, aid, p in self.ctx.events:
            if k == "submitted" and p.market_id == o.market_id and bool(p.order_id == o.order_id):
                return p.volume
        return o.volume

    def check_logger(self):
        g, ctx = self.g, self.ctx
        proc = ctx.logger.processed
        ev = ctx.events

        def count(lg):
            return sum(1 for x in proc if x is lg)
        # every accepted order / cancel / fill: exactly one processed record, fields = actual values
        sub = [p for k, aid, p in ev if k == "submitted"]
        can = [p for k, aid, p in ev if k == "canceled"]
        exe = []
        for k, aid, p in ev:
            if k == "executed" and not any(p is x for x in exe):
                exe.append(p)
        for lg in sub + can + exe:
            n = count(lg)
            g.require(n == 1, "C10.exactly-once", f"{type(lg).__name__} processed {n} times")
        n_ord = sum(1 for x in proc if isinstance(x, OrderLog))
        n_can = sum(1 for x in proc if isinstance(x, CancelLog))
        n_exe = sum(1 for x in proc if isinstance(x, ExecutionLog))
        g.require(n_ord == len(sub), "C10.order-records", f"{n_ord} order records for {len(sub)} accepted orders")
        g.require(n_can == len(can), "C10.cancel-records", f"{n_can} cancel records for {len(can)} accepted cancels")
        g.require(n_exe == len(exe), "C10.fill-records", f"{n_exe} fill records for {len(exe)} fills")
        for aid, o in self._accepted_orders():
            lgs = [x for x in proc if isinstance(x, OrderLog) and x.market_id == o.market_id and bool(x.order_id == o.order_id)]
            g.require(len(lgs) == 1, "C10.order-records")
            lg = lgs[0]
            g.require(sand(lg.agent_id == aid, lg.is_buy == o.is_buy, lg.kind == o.kind, lg.time == o.placed_at,
                           (lg.price is None and o.price is None) or
                           (lg.price is not None and o.price is not None and lg.price == o.price),
                           lg.ttl == o.ttl if o.ttl is not None else lg.ttl is None),
                      "C10.order-record-fields")
        # cancel records carry the values of the cancelled order at the moment of the cancel
        for aid, c in self._decided(Cancel):
            if c.placed_at is None:
                continue
            o = c.order
            lgs = [x for x in proc if isinstance(x, CancelLog) and x.market_id == o.market_id
                   and bool(x.order_id == o.order_id) and bool(x.cancel_time == c.placed_at)]
            g.require(len(lgs) >= 1, "C10.cancel-records", f"no record for the cancel of order {o.order_id} at t={c.placed_at}")
            x = lgs[0]
            g.require(sand(x.agent_id == o.agent_id, x.is_buy == o.is_buy, x.kind == o.kind, x.order_time == o.placed_at,
                           (x.price is None and o.price is None) or
                           (x.price is not None and o.price is not None and x.price == o.price),
                           x.volume == o.volume,
                           (x.ttl is None and o.ttl is None) or (x.ttl is not None and o.ttl is not None and x.ttl == o.ttl)),
                      "C10.cancel-record-fields", f"cancel record of order {o.order_id} differs from the order's values")
        # fill records: parties, orders, positive volume
        for x in proc:
            if isinstance(x, ExecutionLog):
                bo = [o for aid, o in self._accepted_orders() if o.market_id == x.market_id and bool(o.order_id == x.buy_order_id)]
                so = [o for aid, o in self._accepted_orders() if o.market_id == x.market_id and bool(o.order_id == x.sell_order_id)]
                g.require(len(bo) == 1 and len(so) == 1 and bo[0].is_buy and not so[0].is_buy, "C10.fill-record-fields",
                          "fill record does not name one accepted buy and one accepted sell order of its market")
                g.require(sand(x.buy_agent_id == bo[0].agent_id, x.sell_agent_id == so[0].agent_id, x.volume > 0,
                               x.time >= bo[0].placed_at, x.time >= so[0].placed_at), "C10.fill-record-fields")
        # expiries: one record per order that left the book by ttl
        n_exp = sum(1 for x in proc if isinstance(x, ExpirationLog))
        end_t = ctx.sim.markets[0].get_time()
        cancel_time = {}
        for aid, c in self._decided(Cancel):
            if c.placed_at is not None and id(c.order) not in cancel_time:
                cancel_time[id(c.order)] = c.placed_at
        expired = [(aid, o) for aid, o in self._accepted_orders()
                   if o.ttl is not None and bool(o.volume > 0) and bool(o.placed_at + o.ttl < end_t)
                   and not (id(o) in cancel_time and bool(cancel_time[id(o)] <= o.placed_at + o.ttl))]
        g.require(n_exp == len(expired), "C10.expiry-records", f"{n_exp} expiry records, {len(expired)} orders timed out")
        if n_exp:
            g.note("expiry")
        for x in proc:
            if isinstance(x, ExpirationLog):
                g.require(count(x) == 1, "C10.exactly-once", "expiry record processed more than once")
        # order of delivery = order of occurrence
        truth = [p for k, aid, p in ev if k in ("submitted", "canceled")]
        truth_exe = []
        seq = []
        for k, aid, p in ev:
            if k in ("submitted", "canceled"):
                seq.append(p)
            elif k in ("log-write", "log-direct") and isinstance(p, (ExecutionLog, ExpirationLog)):
                if not any(p is x for x in seq):
                    seq.append(p)
        # (an order record is written before its submitted_order callback and after every earlier fill, so
        # the callback sequence merged with the first sight of fill/expiry records is the event order,
        # except that a round's fills are written after the order that triggered them was logged)
        got = [x for x in proc if isinstance(x, (OrderLog, CancelLog, ExecutionLog, ExpirationLog))]
        dedup = []
        for x in got:
            if not any(x is y for y in dedup):
                dedup.append(x)
        want = self._event_order()
        g.require(len(dedup) == len(want) and all(a is b for a, b in zip(dedup, want)), "C10.in-order",
                  "records reach the logger in an order different from the order of the events")
        self.check_frames(proc)

    def _event_order(self):
        """ground truth order of book events: the order in which the parties were told (acceptance ->
        submitted_order / canceled_order; fills -> executed_order, first delivery of each record); expiry
        records have no callback: they belong to the clock advance to their time, i.e. after every event of
        earlier times and before every event of that time."""
        seq = []
        for k, aid, p in self.ctx.events:
            if k in ("submitted", "canceled", "executed") and not any(p is x for x in seq):
                seq.append(p)
        exps = []
        for k, aid, p in self.ctx.events:
            if k in ("log-write", "log-direct") and isinstance(p, ExpirationLog) and not any(p is x for x in exps):
                exps.append(p)

        def tm(x):
            return x.cancel_time if isinstance(x, CancelLog) else x.time
        out = []
        pending = list(exps)
        for x in seq:
            while pending and pending[0].time <= tm(x):
                out.append(pending.pop(0))
            out.append(x)
        return out + pending

    def check_frames(self, proc):
        """begin/end records: simulation > sessions > market steps, nested and complete; step records are
        processed inside their step; every other record no later than the next session boundary."""
        g, sim = self.g, self.sim
        frames = [x for x in proc if isinstance(x, (SimulationBeginLog, SimulationEndLog, SessionBeginLog,
                                                      SessionEndLog, MarketStepBeginLog, MarketStepEndLog))]
        g.require(len(frames) >= 2 and isinstance(frames[0], SimulationBeginLog)
                  and isinstance(frames[-1], SimulationEndLog), "C10.simulation-begin-end")
        g.require(proc[0] is frames[0] and proc[-1] is frames[-1], "C10.simulation-begin-end",
                  "records outside the simulation begin/end pair")
        g.require(sum(isinstance(x, SimulationBeginLog) for x in frames) == 1 and
                  sum(isinstance(x, SimulationEndLog) for x in frames) == 1, "C10.simulation-begin-end")
        i = 1
        nm = len(sim.markets)
        for s in sim.sessions:
            g.require(isinstance(frames[i], SessionBeginLog) and frames[i].session is s, "C10.session-begin-end",
                      f"session {s.name}: begin record missing or out of place")
            i += 1
            for step in range(s.iteration_steps):
                for kind in (MarketStepBeginLog, MarketStepEndLog):
                    for m in sim.markets:
                        g.require(i < len(frames) and isinstance(frames[i], kind) and frames[i].market is m
                                  and frames[i].session is s, "C10.step-begin-end",
                                  f"session {s.name} step {step}: {kind.__name__} for {m.name} missing or out of place")
                        i += 1
            g.require(isinstance(frames[i], SessionEndLog) and frames[i].session is s, "C10.session-begin-end")
            i += 1
        g.require(i == len(frames) - 1, "C10.frames-complete")
        # timeliness: each book record is processed before the end record of the session it happened in
        bounds = {}
        t = 0
        for s in sim.sessions:
            bounds[s.session_id] = (t, t + s.iteration_steps - 1)
            t += s.iteration_steps
        pos = {id(x): k for k, x in enumerate(proc)}
        for s in sim.sessions:
            end_pos = [k for k, x in enumerate(proc) if isinstance(x, SessionEndLog) and x.session is s][0]
            lo, hi = bounds[s.session_id]
            for k, x in enumerate(proc):
                tt = None
                if isinstance(x, (OrderLog, ExecutionLog)):
                    tt = x.time
                elif isinstance(x, CancelLog):
                    tt = x.cancel_time
                if tt is not None and bool(tt >= lo) and bool(tt <= hi):
                    g.require(k < end_pos, "C10.delivered-by-session-end",
                              "a book record was processed after the end record of its session")
        # step records are delivered synchronously: write_and_direct_process, never queued
        for how, lg in self.ctx.logger.written:
            if isinstance(lg, (MarketStepBeginLog, MarketStepEndLog)):
                g.require(how == "direct", "C10.step-records-synchronous")


class C05_RunnerBasics(RunnerBasics):
    props = ("C05",)


class C10_RunnerBasics(RunnerBasics):
    props = ("C10",)
    reach = ("nontrivial", "multi-fill-round", "expiry")


class C11_RunnerBasics(RunnerBasics):
    props = ("C11",)
    reach = ("nontrivial", "self-trade", "multi-fill-round", "cancel")


class Spoofing(Harness):
    """an order (or cancel) carrying another agent's id is refused by the runner before it has any effect."""
    name = "Spoofing"
    title = "orders and cancels are only accepted from their owner (real SequentialRunner)"
    what_symbolic = "price and volume of the spoofed order, activation order; who spoofs whom and through which path is the case split"
    nontrivial_event = "a spoofed submission was refused"
    reach = ("nontrivial",)
    bounds = {"quick": "normal and high-frequency path; spoofed new order / spoofed cancel of the other agent's resting "
                       "order, alone or in one batch with an order of the submitter's own", "thorough": "same"}
    agreement_runs = 2

    def cases(self, tier):
        return [{"hft": h, "what": w, "mixed": mx} for h in (False, True) for w in ("order", "cancel")
                for mx in (False, True)]

    def run(self, g, case):
        from pams.agents import Agent, HighFrequencyAgent
        from pams.order import Cancel, LIMIT_ORDER, Order
        state = {"victim_order": None, "done": False}

        def behave(agent, markets):
            t = markets[0].get_time()
            if agent.agent_id == 0:
                if t == 0 and state["victim_order"] is None:
                    o = Order(agent_id=0, market_id=0, is_buy=True, kind=LIMIT_ORDER, volume=g.int("v0", 1, 100),
                              price=g.int("p0", 1, 1000))
                    state["victim_order"] = o
                    return [o]
                return []
            if t == 1 and not state["done"]:
                state["done"] = True
                own = [Order(agent_id=agent.agent_id, market_id=0, is_buy=True, kind=LIMIT_ORDER, volume=1,
                             price=g.int("p_own", 1, 1000))] if case.get("mixed") else []
                if case["what"] == "order":
                    return own + [Order(agent_id=0, market_id=0, is_buy=False, kind=LIMIT_ORDER,
                                        volume=g.int("v1", 1, 100), price=g.int("p1", 1, 1000))]
                return own + [Cancel(order=state["victim_order"])]
            return []

        class Victim(Agent):
            def submit_orders(self, markets):
                return behave(self, markets)

        class SpooferN(Agent):
            def submit_orders(self, markets):
                return behave(self, markets)

        class SpooferH(HighFrequencyAgent):
            def submit_orders(self, markets):
                return behave(self, markets)
        st = rn.base_settings(n_agents=0, sessions=[rn.session(0, 2, True, True, maxNormalOrders=2)])
        st["simulation"]["agents"] = ["V", "X"]
        st["V"] = {"class": "Victim", "numAgents": 1, "markets": ["M"], "assetVolume": 50, "cashAmount": 10000}
        st["X"] = {"class": "SpooferH" if case["hft"] else "SpooferN", "numAgents": 1, "markets": ["M"],
                   "assetVolume": 50, "cashAmount": 10000}
        if case["hft"]:
            # the HFT phase only runs after a normal batch: a second normal agent keeps quoting
            st["simulation"]["agents"].append("A")
            st["A"] = {"class": "ScriptedAgent", "numAgents": 1, "markets": ["M"], "assetVolume": 50, "cashAmount": 10000}
        ctx = rn.make_run(g, st, {"acts": ["limit"], "side": "S", "price_fixed": 2000, "vol_fixed": 1},
                          classes=(Victim, SpooferN, SpooferH))
        m = ctx.sim.markets[0]
        try:
            ctx.runner._run()
            raised = None
        except ValueError as e:
            raised = e
        g.require(raised is not None, "C04.spoofed-submission-accepted",
                  f"a {case['what']} carrying another agent's id went through")
        g.note("nontrivial")
        # nothing of the spoofed submission took effect
        o = state["victim_order"]
        g.require(o.placed_at is not None and not o.is_canceled, "C04.spoofed-submission-had-effect")
        g.require(len(ctx.logger.distinct(OrderLog)) == (1 if not case["hft"] else len(ctx.logger.distinct(OrderLog))),
                  "C04.spoofed-submission-had-effect")
        g.require(len(ctx.logger.distinct(CancelLog)) == 0, "C04.spoofed-submission-had-effect")
        g.require(sum(m.get_buy_order_book().values()) == o.volume, "C04.spoofed-submission-had-effect",
                  "the bid side holds more than the victim's own order")


class C04_Spoofing(Spoofing):
    pass


class HookWrittenVolume(Harness):
    """orders rewritten by a built-in event before acceptance: whatever the configuration, nothing without a
    positive volume is accepted or rests (a configuration may also be refused by setup())."""
    name = "HookWrittenVolume"
    title = "OrderMistakeShock with a configured volume or lifetime of 0 / below 0 / above 0 in a real run: accepted volumes and lifetimes stay positive"
    what_symbolic = "activation order of the agents; the configured orderVolume and the trigger time are the case split"
    nontrivial_event = "an order written by the shock was accepted, or the configuration was refused"
    reach = ("nontrivial", "refused-configuration", "shock-order-accepted")
    bounds = {"quick": "one market, 2 steps, 2 agents (buyer, seller) quoting one unit each in both steps, shock at t=0 or 1 "
                       "with orderVolume in {0, -3, 2}, orderTimeLength in {2, 0, -3}", "thorough": "same"}
    assumptions = (rn.REDUCTION_NOTE,)
    agreement_runs = 2

    def cases(self, tier):
        return [{"volume": v, "k": k} for v in (0, -3, 2) for k in (0, 1)] + \
               [{"volume": 2, "k": k, "ttl": t} for t in (0, -3) for k in (0, 1)]

    def run(self, g, case):
        sessions = [rn.session(0, 2, True, True, maxNormalOrders=2, events=["SHOCK"])]
        extra = {"SHOCK": {"class": "OrderMistakeShock", "target": "M", "triggerTime": case["k"], "priceChangeRate": 0.05,
                           "orderVolume": case["volume"], "orderTimeLength": case.get("ttl", 2)}}
        st = rn.base_settings(n_agents=2, sessions=sessions, extra=extra)
        # quotes 10 off the market price (plain numbers: the shock's price is market price x 1.05, tick-rounded)
        menu = {"acts": ["limit"], "vol_fixed": 1, "price_rel": 10, "per_agent": {"0": {"side": "B"}, "1": {"side": "S"}}}
        try:
            ctx = rn.make_run(g, st, menu)
        except ValueError:
            g.note("refused-configuration")
            g.note("nontrivial")
            g.require(case["volume"] <= 0 or case.get("ttl", 2) <= 0, "C04.harness:valid-configuration-refused")
            return
        if case["volume"] > 0:
            g.note("refused-configuration")       # (reach bookkeeping: this case cannot be refused)
        ctx.runner._run()
        accepted = {}
        for kind, aid, lg in ctx.events:
            if kind == "log-write" and isinstance(lg, ExecutionLog):
                for oid in (lg.buy_order_id, lg.sell_order_id):
                    o = accepted.get(oid)
                    if o is not None and o.ttl is not None:
                        g.require(lg.time <= o.time + o.ttl, "C04.fill-after-ttl",
                                  f"order {oid} accepted at t={o.time} with time-to-live {o.ttl} was filled at t={lg.time}")
            if kind == "submitted":
                g.require(lg.volume > 0, "C04.accepted-order-without-positive-volume",
                          f"order {lg.order_id} accepted at t={lg.time} with volume {lg.volume}")
                accepted[lg.order_id] = lg
                if bool(lg.volume == case["volume"]) or case["volume"] <= 0 or case.get("ttl", 2) <= 0:
                    g.note("shock-order-accepted")
                    g.note("nontrivial")
        m = ctx.sim.markets[0]
        for book in (m.buy_order_book, m.sell_order_book):
            for o in book.priority_queue:
                g.require(o.volume > 0, "C04.resting-order-without-positive-volume")


class C04_HookWrittenVolume(HookWrittenVolume):
    pass


class LifetimeInRun(Harness):
    """time-to-live through sessions of a real run: an order whose last step lies inside a session without order
    placement (or without execution) is gone when trading resumes."""
    name = "LifetimeInRun"
    title = "order lifetime across sessions with and without placement / execution (real SequentialRunner)"
    what_symbolic = "the time-to-live of the resting order (1..4), activation order; the session layout is the case split"
    nontrivial_event = "the resting order expired inside the middle session, or was filled after it"
    reach = ("nontrivial", "expired-in-middle-session", "filled-after-middle-session")
    bounds = {"quick": "sessions of 2 + 2 + 2 steps, the middle one without placement and/or without execution; a buy order "
                       "with ttl in [1,4] accepted at t=1, a crossing sell at t=4 (first step of the last session) or t=5",
              "thorough": "same"}
    assumptions = (rn.REDUCTION_NOTE,)
    agreement_runs = 4

    def cases(self, tier):
        return [{"mid": [p, e], "sell_at": s} for p, e in ((False, True), (False, False), (True, False)) for s in (4, 5)]

    def run(self, g, case):
        sessions = [rn.session(0, 2, True, True, maxNormalOrders=2),
                    rn.session(1, 2, case["mid"][0], case["mid"][1], maxNormalOrders=2),
                    rn.session(2, 2, True, True, maxNormalOrders=2)]
        st = rn.base_settings(n_agents=2, sessions=sessions)
        menu = {"vol_fixed": 1, "price_fixed": 300, "acts": ["limit"], "ttl": ["sym"], "ttl_hi": 4,
                "per_agent": {"0": {"side": "B", "active": [1, 1]}, "1": {"side": "S", "active": [case["sell_at"]] * 2}}}
        ctx = rn.make_run(g, st, menu)
        ctx.runner._run()
        accepted = {}
        for kind, aid, p in ctx.events:
            if kind == "submitted":
                accepted[p.order_id] = p
        exp_seen = set()
        for kind, aid, p in ctx.events:
            if kind in ("log-write", "log-direct") and isinstance(p, ExpirationLog) and id(p) not in exp_seen:
                exp_seen.add(id(p))
                o = accepted[p.order_id]
                g.require(p.time == o.time + o.ttl + 1, "C04.expiry-at-wrong-time",
                          f"order {p.order_id} accepted at t={o.time} with ttl {o.ttl} reported expired at t={p.time}")
                if bool(sand(p.time >= 2, p.time <= 4)):
                    g.note("expired-in-middle-session")
                    g.note("nontrivial")
            if kind == "log-write" and isinstance(p, ExecutionLog):
                for oid in (p.buy_order_id, p.sell_order_id):
                    o = accepted[oid]
                    if o.ttl is not None:
                        g.require(p.time <= o.time + o.ttl, "C04.fill-after-ttl",
                                  f"order {oid} accepted at t={o.time} with ttl {o.ttl} was filled at t={p.time}")
                g.note("filled-after-middle-session")
                g.note("nontrivial")


class C04_LifetimeInRun(LifetimeInRun):
    pass

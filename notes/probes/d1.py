import random, warnings, copy
warnings.simplefilter("ignore")
from pams.runners import SequentialRunner
from pams.logs import Logger
from pams.agents import Agent
from pams.order import Order, LIMIT_ORDER, MARKET_ORDER

class Rec(Logger):
    def __init__(self):
        super().__init__(); self.ex=[]; self.orders=[]
    def process_execution_log(self, log): self.ex.append((log.time, log.market_id, log.buy_order_id, log.sell_order_id, log.price, log.volume))
    def process_order_log(self, log): self.orders.append((log.time, log.market_id, log.order_id, log.price))

class Alt(Agent):
    def submit_orders(self, markets):
        out=[]
        for m in markets:
            if self.is_market_accessible(m.market_id):
                out.append(Order(agent_id=self.agent_id, market_id=m.market_id, is_buy=(self.agent_id%2==0), kind=LIMIT_ORDER, volume=1, price=300.0 + (5 if self.agent_id%2==0 else -5), ttl=3))
        return out

base = {
 "simulation": {"markets": ["Market"], "agents": ["A"], "sessions": [
     {"sessionName": 0, "iterationSteps": 6, "withOrderPlacement": True, "withOrderExecution": False, "withPrint": False, "maxNormalOrders": 2},
     {"sessionName": 1, "iterationSteps": 3, "withOrderPlacement": True, "withOrderExecution": True, "withPrint": False, "maxNormalOrders": 2, "events": ["Halt"]}]},
 "Market": {"class": "Market", "tickSize": 1.0, "marketPrice": 300.0},
 "A": {"class": "Alt", "numAgents": 2, "markets": ["Market"], "assetVolume": 50, "cashAmount": 10000},
 "Halt": {"class": "TradingHaltRule", "targetMarkets": ["Market"], "triggerChangeRate": 0.5, "haltingTimeLength": 2},
}
lg = Rec()
r = SequentialRunner(settings=copy.deepcopy(base), prng=random.Random(1), logger=lg)
r.class_register(Alt)
r._setup(); r._run()
print("executions (time,...):", lg.ex)
print("n exec logs:", len(lg.ex), "distinct:", len(set(lg.ex)))

import random, warnings, sys, time, copy
sys.path.insert(0, "/tmp/probe")
from sx import Engine, SInt, SBool
import z3
warnings.simplefilter("ignore")
from pams.runners import SequentialRunner
from pams.logs import Logger
from pams.agents import Agent
from pams.order import Order, LIMIT_ORDER, MARKET_ORDER

class SymRandom(random.Random):
    """runner prng: schedule choices are solver variables"""
    def __init__(self, g): super().__init__(0); self.g = g; self.n = 0
    def sample(self, population, k):
        pop = list(population); out = []
        for _ in range(k):
            if len(pop) == 1: out.append(pop.pop()); continue
            self.n += 1
            c = self.g.fresh_int(f"sched{self.n}", 0, len(pop) - 1)
            for j in range(len(pop)):
                if j == len(pop) - 1 or (c == j):
                    out.append(pop.pop(j)); break
        return out
    def randint(self, a, b):
        self._c = getattr(self, '_c', 0) + 1
        return self._c
    def random(self):
        self.n += 1
        return self.g.fresh_real_bounded(f"u{self.n}")

class Rec(Logger):
    def __init__(self):
        super().__init__(); self.ex = []; self.orders = []
    def process_execution_log(self, log): self.ex.append(log)
    def process_order_log(self, log): self.orders.append(log)

G = None
class Scripted(Agent):
    def submit_orders(self, markets):
        g = G; t = markets[0].get_time(); tag = f"a{self.agent_id}t{t}"
        act = g.fresh_int(tag + "act", 0, 2)   # 0 nothing, 1 limit, 2 market
        if act == 0: return []
        is_buy = bool(g.fresh_int(tag + "buy", 0, 1) == 1)
        v = g.fresh_int(tag + "v", 1, 50)
        if act == 1:
            p = g.fresh_int(tag + "p", 1, 1000)
            return [Order(agent_id=self.agent_id, market_id=0, is_buy=is_buy, kind=LIMIT_ORDER, volume=v, price=p, ttl=2)]
        return [Order(agent_id=self.agent_id, market_id=0, is_buy=is_buy, kind=MARKET_ORDER, volume=v, ttl=2)]
    def executed_order(self, log):
        self.fills = getattr(self, "fills", []) + [log]

def cfg(nagents, steps):
    return {"simulation": {"markets": ["M"], "agents": ["A"], "sessions": [
        {"sessionName": 0, "iterationSteps": steps, "withOrderPlacement": True, "withOrderExecution": True, "withPrint": False, "maxNormalOrders": nagents}]},
        "M": {"class": "Market", "tickSize": 1, "marketPrice": 300},
        "A": {"class": "Scripted", "numAgents": nagents, "markets": ["M"], "assetVolume": 50, "cashAmount": 10000}}

def harness(nagents, steps, check_dup):
    def h(g):
        global G; G = g
        lg = Rec()
        r = SequentialRunner(settings=cfg(nagents, steps), prng=SymRandom(g), logger=lg)
        r.class_register(Scripted)
        r._setup()
        cash0 = [a.cash_amount for a in r.simulator.agents]; vol0 = [a.asset_volumes[0] for a in r.simulator.agents]
        r._run()
        ags = r.simulator.agents
        assert sum(a.asset_volumes[0] for a in ags) == sum(vol0)
        assert sum(a.cash_amount for a in ags) == sum(cash0)
        if check_dup:
            seen = []
            for lgx in lg.ex:
                assert not any(lgx is s for s in seen), "fill logged twice"
                seen.append(lgx)
    return h

def fresh_real_bounded(self, name):
    v = self.vars.get(name)
    if v is None: v = z3.Real(name); self.vars[name] = v
    self.solver.add(v >= 0, v < 1); self.model = None
    from sx import SReal
    return SReal(self, v)
Engine.fresh_real_bounded = fresh_real_bounded

na, st, dup = int(sys.argv[1]), int(sys.argv[2]), int(sys.argv[3])
g = Engine(); t0 = time.time()
res = g.explore(harness(na, st, dup))
print(f"paths={g.paths} queries={g.queries} solver_s={g.solver_time:.1f} wall={time.time()-t0:.1f}")
if res:
    e, m = res[0]; print("VIOLATION:", type(e).__name__, e); print(sorted((str(d), m[d]) for d in m.decls()))

import z3
F = z3.Float64(); RNE = z3.RNE()
r, a, b = z3.FP('r', F), z3.FP('a', F), z3.FP('b', F)
one = z3.FPVal(1.0, F); zero = z3.FPVal(0.0, F)
base = [z3.fpGEQ(r, zero), z3.fpLT(r, one), z3.fpLT(a, b), z3.fpGEQ(a, z3.FPVal(-1e6, F)), z3.fpLEQ(b, z3.FPVal(1e6, F)),
        z3.Or(z3.fpIsZero(a), z3.fpGEQ(z3.fpAbs(a), z3.FPVal(1e-6, F))), z3.fpGEQ(z3.fpSub(RNE, b, a), z3.FPVal(1e-6, F))]
x = z3.fpAdd(RNE, z3.fpMul(RNE, r, z3.fpSub(RNE, b, a)), a)
for name, goal in (("ge", z3.fpGEQ(x, b)), ("gt", z3.fpGT(x, b))):
    s = z3.Solver(); s.add(*base); s.add(goal)
    open(f"u_{name}.smt2", "w").write("(set-logic QF_FP)\n(set-option :produce-models true)\n" + s.to_smt2().replace("(check-sat)", "(check-sat)\n(get-model)"))

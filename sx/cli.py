import argparse
import os
import sys

sys.path.insert(0, os.path.dirname(os.path.dirname(os.path.abspath(__file__))))
from sx import driver  # noqa: E402


def main():
    ap = argparse.ArgumentParser()
    ap.add_argument("prop")
    ap.add_argument("--tier", default=os.environ.get("VERIF_TIER", "quick"), choices=["quick", "thorough"])
    ap.add_argument("--replay")
    ap.add_argument("--only", help="restrict to one harness class (development aid)")
    a = ap.parse_args()
    if a.replay:
        sys.exit(driver.replay_file(a.replay))
    driver.bootstrap()
    from harness.registry import CHECKS, EXPLAIN
    spec = CHECKS[a.prop]
    hs = [h for h in spec["harnesses"] if not a.only or h[1] == a.only]
    seed = int(os.environ.get("VERIF_SEED", "0"))
    post = None
    if spec.get("post"):
        import importlib
        mod, fn = spec["post"]
        post = getattr(importlib.import_module(mod), fn)
    rc = driver.run_check(a.prop, hs, a.tier, seed, spec.get("explanation", EXPLAIN),
                          budget_s=spec.get("budget", {}).get(a.tier), post=post)
    sys.exit(rc)


main()

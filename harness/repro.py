"""C07 (partial claim): configuration + seed determine the whole run.

A reference run (freshly imported pams, pristine process state) is compared with a second run of the same
configuration and seed executed after a different simulation, while every global source the run could
consult is a nondeterministic stub: Python's and NumPy's global generators, clocks, os.urandom / uuid,
unseeded generator construction, str hashing and the iteration order of sets of strings (what the
interpreter's hash seed controls).  Any dependence makes the two observation sequences differ for some
stub values, which the solver (or plain comparison) exhibits."""
import ast
import copy
import importlib
import os
import random as _random
import sys
import time as _time

import numpy as _np

from sx import is_sym, sand, sor, snot
from sx.driver import Harness, REPO

_ORIG_RANDOM_CLS = _random.Random


def fresh_pams():
    for k in [k for k in sys.modules if k == "pams" or k.startswith("pams.")]:
        del sys.modules[k]
    import pams  # noqa
    import pams.agents, pams.events, pams.logs, pams.runners, pams.utils  # noqa
    return pams


class Globals:
    """patches every global source; `epoch` distinguishes the runs so that each run sees different values."""

    def __init__(self, g):
        self.g = g
        self.epoch = 0
        self.n = 0
        self.saved = []
        self.touched = []

    def fresh_real(self, what):
        self.n += 1
        self.touched.append(what)
        self.g.note("global-source-consulted")
        return self.g.real(f"glob{self.epoch}_{self.n}", 0, 1, hi_strict=True)

    def fresh_int(self, what, lo=0, hi=10 ** 9):
        self.n += 1
        self.touched.append(what)
        self.g.note("global-source-consulted")
        return self.g.int(f"globi{self.epoch}_{self.n}", lo, hi)

    def patch(self, obj, name, fn):
        self.saved.append((obj, name, getattr(obj, name)))
        setattr(obj, name, fn)

    def install(self):
        G = self
        for nm in ("random", "uniform", "gauss", "normalvariate", "betavariate", "expovariate", "triangular"):
            self.patch(_random, nm, lambda *a, _n=nm, **k: G.fresh_real("random." + _n))
        for nm in ("randint", "randrange", "getrandbits"):
            self.patch(_random, nm, lambda *a, _n=nm, **k: G.fresh_int("random." + _n))
        def g_choice(seq):
            G.touched.append("random.choice")
            G.g.note("global-source-consulted")
            seq = list(seq)
            G.n += 1
            return seq[G.g.choice(f"globc{G.epoch}_{G.n}", len(seq))]

        def g_shuffle(x):
            G.touched.append("random.shuffle")
            G.g.note("global-source-consulted")
            items = list(x)
            G.n += 1
            x[:] = [items.pop(G.g.choice(f"globs{G.epoch}_{G.n}_{j}", len(items))) for j in range(len(items))]

        def g_sample(p, k, **kw):
            items = list(p)
            g_shuffle(items)
            return items[:k]
        self.patch(_random, "choice", g_choice)
        self.patch(_random, "shuffle", g_shuffle)
        self.patch(_random, "sample", g_sample)
        self.patch(_random, "seed", lambda *a, **k: G.touched.append("random.seed"))
        for nm in ("rand", "randn", "random", "random_sample", "normal", "uniform", "standard_normal"):
            self.patch(_np.random, nm, lambda *a, _n=nm, **k: G.fresh_real("numpy.random." + _n))
        self.patch(_np.random, "randint", lambda *a, **k: G.fresh_int("numpy.random.randint"))
        self.patch(_np.random, "seed", lambda *a, **k: G.touched.append("numpy.random.seed"))
        for nm in ("time", "perf_counter", "monotonic", "process_time"):
            self.patch(_time, nm, lambda _n=nm: G.fresh_real("time." + _n))
        for nm in ("time_ns", "perf_counter_ns", "monotonic_ns"):
            self.patch(_time, nm, lambda _n=nm: G.fresh_int("time." + _n))
        self.patch(os, "urandom", lambda n: G.touched.append("os.urandom") or bytes([G.epoch + 1]) * n)

        class GuardedRandom(_ORIG_RANDOM_CLS):
            def __init__(self, x=None):
                if x is None:
                    G.touched.append("random.Random() without a seed")
                    G.g.require(False, "C07.unseeded-generator", "a random.Random was created without a seed")
                super().__init__(x)
        self.patch(_random, "Random", GuardedRandom)
        orig_rng = _np.random.default_rng

        def default_rng(seed=None):
            if seed is None:
                G.g.require(False, "C07.unseeded-generator", "numpy default_rng() was created without a seed")
            return orig_rng(seed)
        self.patch(_np.random, "default_rng", default_rng)

    def restore(self):
        for obj, name, val in reversed(self.saved):
            setattr(obj, name, val)
        self.saved = []


def make_symset(G, symbolic):
    g = G.g

    class SymSet(set):
        """set whose iteration order over strings is what the hash seed makes it: arbitrary."""

        def __iter__(self):
            items = list(set.__iter__(self))
            if len(items) > 1 and any(isinstance(x, str) for x in items):
                g.note("str-set-iterated")
                items.sort(key=repr)
                if symbolic:
                    out = []
                    G.n += 1
                    for j in range(len(items)):
                        out.append(items.pop(g.choice(f"setorder{G.epoch}_{G.n}_{j}", len(items))))
                    items = out
            return iter(items)
    return SymSet


def _has_str(x, depth=0):
    if isinstance(x, (str, bytes)):
        return True
    if isinstance(x, (tuple, frozenset)) and depth < 4:
        return any(_has_str(y, depth + 1) for y in x)
    return False


def make_hash(G):
    """the builtin hash as the interpreter's hash seed makes it: for values containing strings the result differs
    from run to run (salted with the run's epoch); everything else hashes as usual."""
    import builtins

    def hash_(x):
        if _has_str(x):
            G.g.note("hash-of-string-called")
            G.touched.append("hash(str)")
            return builtins.hash((x, "hash-seed", G.epoch))
        return builtins.hash(x)
    return hash_


def scan_set_displays():
    """set displays / comprehensions in the pams sources cannot be intercepted by name: count them."""
    n = 0
    where = []
    for root, _, files in os.walk(os.path.join(REPO, "pams")):
        for f in files:
            if f.endswith(".py"):
                p = os.path.join(root, f)
                for node in ast.walk(ast.parse(open(p).read())):
                    if isinstance(node, (ast.Set, ast.SetComp)):
                        n += 1
                        where.append(f"{os.path.relpath(p, REPO)}:{node.lineno}")
    return n, where


FULL = {
    "simulation": {
        "markets": ["Spot", "Spot2", "Index", "Grp", "GrpB"], "agents": ["FCN", "Share", "Maker", "Arb"],
        "sessions": [
            {"sessionName": 0, "iterationSteps": 4, "withOrderPlacement": True, "withOrderExecution": False,
             "withPrint": False, "maxNormalOrders": 3},
            {"sessionName": 1, "iterationSteps": 8, "withOrderPlacement": True, "withOrderExecution": True,
             "withPrint": False, "maxNormalOrders": 3, "maxHighFrequencyOrders": 2, "highFrequencySubmitRate": 0.5,
             "events": ["Off1", "Off2", "FShock", "Mistake", "Limit", "Halt"]}],
        "fundamentalCorrelations": {"pairwise": [["Spot", "Spot2", 0.6]]}},
    "Spot": {"class": "Market", "tickSize": 0.01, "marketPrice": 300.0, "outstandingShares": 1000,
             "fundamentalVolatility": 0.01, "fundamentalDrift": 0.001},
    "Spot2": {"extends": "Spot", "marketPrice": 310.0},
    "Grp": {"class": "Market", "tickSize": 0.5, "marketPrice": 100.0, "from": 0, "to": 1, "prefix": "G"},
    "GrpB": {"extends": "Grp", "marketPrice": 120.0, "from": 5, "to": 5, "prefix": "H"},
    "Index": {"class": "IndexMarket", "tickSize": 0.01, "marketPrice": 305.0, "markets": ["Spot", "Spot2"]},
    "FCN": {"class": "FCNAgent", "numAgents": 6, "markets": ["Spot", "Spot2", "Index"],
            "assetVolume": [10, 60], "cashAmount": {"uniform": [5000, 15000]},
            "fundamentalWeight": {"expon": [1.0]}, "chartWeight": {"expon": [0.2]}, "noiseWeight": {"expon": [1.0]},
            "noiseScale": 0.01, "timeWindowSize": [2, 5], "orderMargin": [0.0, 0.1], "marginType": "fixed",
            "meanReversionTime": {"normal": [5, 1]}},
    "Share": {"class": "MarketShareFCNAgent", "extends": "FCN", "numAgents": 4, "markets": ["Spot", "Spot2"]},
    "Maker": {"class": "MarketMakerAgent", "numAgents": 1, "markets": ["Spot", "Spot2"], "assetVolume": 50,
              "cashAmount": 10000, "targetMarket": "Spot", "netInterestSpread": 0.02, "orderTimeLength": 2},
    "Arb": {"class": "ArbitrageAgent", "numAgents": 1, "markets": ["Spot", "Spot2", "Index"], "assetVolume": 50,
            "cashAmount": 10000, "orderVolume": 1, "orderThresholdPrice": 0.5, "orderTimeLength": 1},
    "FShock": {"class": "FundamentalPriceShock", "target": "Spot", "triggerTime": 2, "priceChangeRate": -0.2,
               "shockTimeLength": 2},
    "Mistake": {"class": "OrderMistakeShock", "target": "Spot2", "triggerTime": 3, "priceChangeRate": -0.1,
                "orderVolume": 20, "orderTimeLength": 3},
    "Limit": {"class": "PriceLimitRule", "targetMarkets": ["Spot2"], "triggerChangeRate": 0.2},
    "Halt": {"class": "TradingHaltRule", "targetMarkets": ["Spot"], "triggerChangeRate": 0.02, "haltingTimeLength": 2},
    # two disabled events, listed first
    "Off1": {"class": "FundamentalPriceShock", "target": "Spot2", "triggerTime": 1, "priceChangeRate": 0.5,
             "shockTimeLength": 1, "enabled": False},
    "Off2": {"class": "OrderMistakeShock", "target": "Spot", "triggerTime": 1, "priceChangeRate": 0.5,
             "orderVolume": 5, "orderTimeLength": 2, "enabled": False},
}

SMALL = {
    "simulation": {"markets": ["A", "B"], "agents": ["T", "S"], "sessions": [
        {"sessionName": 0, "iterationSteps": 6, "withOrderPlacement": True, "withOrderExecution": True,
         "withPrint": False, "maxNormalOrders": 4, "maxHifreqOrders": 2, "hifreqSubmitRate": 0.5,
         "events": ["Nudge"]}]},
    "Nudge": {"class": "StepEndNudge"},
    "A": {"class": "Market", "tickSize": 1, "marketPrice": 100.0},
    "B": {"class": "Market", "tickSize": 1, "marketPrice": 200.0, "fundamentalVolatility": 0.02},
    "T": {"class": "TestAgent", "numAgents": 5, "markets": ["B", "A"], "assetVolume": [100, 1],      # bounds given descending
          "cashAmount": {"uniform": [2000, 1000]}},
    "S": {"class": "MarketShareFCNAgent", "numAgents": 4, "markets": ["A", "B"], "assetVolume": [1, 100],
          "cashAmount": 1000, "fundamentalWeight": 1.0, "chartWeight": 0.5, "noiseWeight": 1.0, "noiseScale": 0.05,
          "timeWindowSize": 3, "orderMargin": 0.05},
}


def observe_run(pams, settings, seed, with_logger=True):
    """run one simulation on the given (freshly imported) pams; return the list of observations."""
    from pams.logs import Logger
    from pams.events import EventABC, EventHook
    obs = []

    class StepEndNudge(EventABC):
        """user event acting at the end of every market step (changes the state the run evolves from)"""

        def hook_registration(self):
            return [EventHook(event=self, hook_type="market", is_before=False)]

        def hooked_after_step_for_market(self, simulator, market):
            if market.get_time() % 2 == 1 and market.market_id == 0:
                # acts on a draw from the generator the runner handed to this event
                market.change_fundamental_price(scale=1.0 + 0.01 * self.prng.random())

    class Rec(Logger):
        def process(self, logs):
            for lg in logs:
                d = {k: v for k, v in vars(lg).items() if isinstance(v, (int, float, bool, str, type(None)))
                     or is_sym(v)}
                if hasattr(lg, "kind"):
                    d["kind"] = repr(lg.kind)
                obs.append((type(lg).__name__,) + tuple(sorted(d.items())))
            super().process(logs)
    given = copy.deepcopy(settings)
    runner = pams.runners.SequentialRunner(settings=given, prng=_random.Random(seed),
                                           logger=Rec() if with_logger else None)
    runner.class_register(StepEndNudge)
    runner._setup()
    runner._run()
    sim = runner.simulator
    for m in sim.markets:
        t = m.get_time()
        for name in ("get_market_prices", "get_mid_prices", "get_last_executed_prices", "get_fundamental_prices",
                     "get_executed_volumes", "get_executed_total_prices", "get_n_buy_orders", "get_n_sell_orders"):
            obs.append((m.name, name, tuple(getattr(m, name)(range(t)))))
    for a in sim.agents:
        obs.append((a.name, "cash", a.cash_amount, tuple(sorted(a.asset_volumes.items()))))
    return obs, given


def _same(a, b):
    if isinstance(a, tuple) and isinstance(b, tuple):
        if len(a) != len(b):
            return False
        res = [_same(x, y) for x, y in zip(a, b)]
        if any(r is False for r in res):
            return False
        sym = [r for r in res if r is not True]
        return sand(*sym) if sym else True
    if isinstance(a, float) and a != a:
        return isinstance(b, float) and b != b
    if a is None or b is None:
        return a is None and b is None
    r = (a == b)
    return r


class Reproducible(Harness):
    name = "Reproducible"
    title = "same configuration and seed => same outcome, whatever global sources, hash seed and earlier runs do"
    what_symbolic = ("every value a global generator / clock could return (fresh solver values, different in the two "
                     "runs), the iteration order of every set of strings built by pams code (any permutation)")
    nontrivial_event = "the compared runs produced fills"
    reach = ("nontrivial",)
    bounds = {"quick": "2 configurations (one using every built-in agent, market and event class with correlated "
                       "fundamentals, 12 steps; one small with TestAgent / MarketShareFCNAgent, 6 steps) x seeds {2, 7}; "
                       "reference run in freshly imported pams vs the same run after a different simulation",
              "thorough": "seeds {2, 7, 11, 12345, 100..119}"}
    stubs = ("random.* module functions, numpy.random.* legacy functions, time.*, os.urandom -> nondeterministic stubs",
             "random.Random() / numpy default_rng() without a seed -> reported",
             "the name `set` in every pams module -> set whose iteration order over strings is solver-chosen",
             "the name `hash` in every pams module -> for values containing strings, a result that differs between the compared runs",
             "the thread's decimal arithmetic context -> another precision in the repeated run")
    assumptions = ("bit-level determinism of CPython's Mersenne Twister, NumPy's Generator and SciPy for a given seed",
                   "the interpreter's hash seed can influence a run only through str hashing, i.e. the iteration order "
                   "of sets of strings created by calling set(...) (set displays / comprehensions are counted by a "
                   "source scan and reported in the evidence)")
    outside = ("'every seed' and 'every configuration': two configurations and a few seeds are run (the solver ranges "
               "over the global sources and set orders, not over seeds)", "C-level hash randomisation effects other than "
               "set iteration order", "output printed by Runner.main()")
    agreement_runs = 0
    query_timeout_ms = 60000

    def cases(self, tier):
        seeds = (2, 7) if tier == "quick" else (2, 7, 11, 12345) + tuple(range(100, 120))
        return [{"config": c, "seed": s} for c in ("full", "small") for s in seeds]

    def run(self, g, case):
        settings = FULL if case["config"] == "full" else SMALL
        other = SMALL if case["config"] == "full" else FULL
        pristine = copy.deepcopy(settings)
        G = Globals(g)
        G.install()
        try:
            # reference: pristine process state, identity set order
            pams = fresh_pams()
            G.epoch = 0
            self.inject(pams, make_symset(G, symbolic=False), make_hash(G))
            ref, given = observe_run(pams, settings, case["seed"])
            g.require(given == pristine, "C07.settings-modified", "running modified the caller's settings object")
            g.require(settings == pristine, "C07.settings-modified")
            if any(o[0] == "ExecutionLog" for o in ref):
                g.note("nontrivial")
            # second: after a different simulation in the same process, other global values, any set order
            pams = fresh_pams()
            self.inject(pams, make_symset(G, symbolic=False), make_hash(G))
            G.epoch = 1
            observe_run(pams, other, case["seed"] + 1)
            observe_run(pams, settings, case["seed"] + 5)
            G.epoch = 2
            self.inject(pams, make_symset(G, symbolic=True), make_hash(G))
            import decimal
            saved_ctx = decimal.getcontext()
            decimal.setcontext(decimal.Context(prec=9, rounding=decimal.ROUND_HALF_EVEN))   # another arithmetic context
            try:
                again, _ = observe_run(pams, settings, case["seed"])
            finally:
                decimal.setcontext(saved_ctx)
            g.require(len(ref) == len(again), "C07.outcome-differs",
                      f"{len(ref)} observations in the reference run, {len(again)} in the repeated run")
            for k, (a, b) in enumerate(zip(ref, again)):
                g.require(_same(a, b), "C07.outcome-differs",
                          f"observation #{k} differs between the reference run and the repeated run: {str(a)[:160]} vs {str(b)[:160]}")
            g.observe(len(ref))
            # ... and whether a logger is attached is not part of (configuration, seed): series and holdings agree
            G.epoch = 3
            quiet, _ = observe_run(pams, settings, case["seed"], with_logger=False)
            tail_ref = [o for o in ref if len(o) > 1 and isinstance(o[1], str) and (o[1].startswith("get_") or o[1] == "cash")]
            quiet = [o for o in quiet if len(o) > 1 and isinstance(o[1], str)]
            g.require(len(quiet) == len(tail_ref), "C07.outcome-depends-on-logger")
            for a, b in zip(tail_ref, quiet):
                g.require(_same(a, b), "C07.outcome-depends-on-logger",
                          f"series / holdings differ between a run with and a run without a logger: {str(a)[:120]} vs {str(b)[:120]}")
        finally:
            G.restore()

    @staticmethod
    def inject(pams, symset, hash_=None):
        for k, mod in list(sys.modules.items()):
            if k == "pams" or k.startswith("pams."):
                mod.__dict__["set"] = symset
                if hash_ is not None:
                    mod.__dict__["hash"] = hash_


def post(tier, stats):
    n, where = scan_set_displays()
    return {"coverage": {"uninterceptable_set_displays_in_pams_sources": n, "set_display_sites": where[:20]}}


class C07_Reproducible(Reproducible):
    pass

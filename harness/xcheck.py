"""Second-engine cross-checks (thorough tier, off the verdict path): the same real kernels under CrossHair."""
import os
import re
import subprocess
import sys
import time

from sx.driver import REPO, VERIF


def crosshair(file_rel, timeout_s=180):
    env = dict(os.environ, PYTHONPATH=os.pathsep.join([REPO, os.path.join(VERIF, ".deps"), VERIF]),
               PYTHONDONTWRITEBYTECODE="1")
    cmd = [sys.executable, "-m", "crosshair", "check", "--report_all", "--per_condition_timeout", str(timeout_s),
           os.path.join(VERIF, file_rel)]
    t0 = time.time()
    try:
        r = subprocess.run(cmd, env=env, capture_output=True, text=True, timeout=timeout_s * 3)
        out = r.stdout + r.stderr
    except subprocess.TimeoutExpired:
        out = "timeout"
    confirmed = len(re.findall(r"Confirmed over all paths", out))
    refuted = [l for l in out.splitlines() if "error:" in l and "Confirmed" not in l and "Not confirmed" not in l
               and "Unable to meet precondition" not in l]
    inconclusive = len(re.findall(r"Not confirmed|Unable to meet precondition", out))
    return {"cmd": " ".join(cmd[1:]), "wall_s": round(time.time() - t0, 1), "confirmed": confirmed,
            "inconclusive": inconclusive, "counterexamples": refuted[:5], "raw_tail": out[-600:]}


def post_c02(tier, stats):
    """C02 thorough: CrossHair on the Order comparison laws (unbounded ints)."""
    if tier != "thorough":
        return {"coverage": {"second_engine": "CrossHair cross-check runs in the thorough tier only"}}
    res = crosshair("xh/order_laws.py")
    cov = {"second_engine_crosshair_order_laws": res}
    if res["counterexamples"]:
        # a disagreement between the engines is a harness error to investigate, never silently ignored
        raise RuntimeError(f"CrossHair disagrees with SX on the Order comparison laws: {res['counterexamples']}")
    return {"coverage": cov}

"""CrossHair cross-check (second engine, off the verdict path) of the C02 comparison laws on the real
pams.order.Order: run with `crosshair check --report_all` (see harness/xcheck.py)."""
from typing import Tuple

from pams.order import LIMIT_ORDER, MARKET_ORDER, Order


def _mk(is_buy: bool, mk: bool, p: int, t: int, i: int) -> Order:
    return Order(agent_id=0, market_id=0, is_buy=is_buy, kind=MARKET_ORDER if mk else LIMIT_ORDER, volume=1,
                 price=None if mk else p, placed_at=t, order_id=i)


def _ranks_before(is_buy: bool, a: Tuple[bool, int, int, int], b: Tuple[bool, int, int, int]) -> bool:
    """the ranking of the property text: market first, better price, earlier time, lower id"""
    amk, ap, at, ai = a
    bmk, bp, bt, bi = b
    if amk != bmk:
        return amk
    if not amk and ap != bp:
        return ap > bp if is_buy else ap < bp
    if at != bt:
        return at < bt
    return ai < bi


def laws(is_buy: bool, a: Tuple[bool, int, int, int], b: Tuple[bool, int, int, int],
         c: Tuple[bool, int, int, int]) -> bool:
    """
    pre: a[1] >= 0 and b[1] >= 0 and c[1] >= 0
    pre: a[2] >= 0 and b[2] >= 0 and c[2] >= 0
    pre: a[3] >= 0 and b[3] >= 0 and c[3] >= 0
    pre: a[3] != b[3] and b[3] != c[3] and a[3] != c[3]
    post: __return__
    """
    x, y, z = _mk(is_buy, *a), _mk(is_buy, *b), _mk(is_buy, *c)
    ok = True
    for (u, ut), (v, vt) in (((x, a), (y, b)), ((y, b), (z, c)), ((x, a), (z, c)), ((y, b), (x, a))):
        lt = u < v
        ok = ok and (lt == _ranks_before(is_buy, ut, vt))     # agrees with the ranking
        ok = ok and ((v > u) == lt)                            # > is the converse of <
        ok = ok and (lt != (v < u))                            # trichotomy for distinct orders
        ok = ok and (not (u == v)) and (u != v)
        ok = ok and ((u <= v) == lt) and ((v >= u) == lt)
    if (x < y) and (y < z):
        ok = ok and (x < z)                                    # transitivity
    return ok

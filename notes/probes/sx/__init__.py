"""Prototype: tiny dynamic symbolic executor (proxy values + z3 + DFS over branch decisions)."""
import z3, time, math

class Infeasible(BaseException):
    pass

class Engine:
    def __init__(self):
        self.solver = z3.Solver()
        self.prefix = []      # planned decisions for this run [(bool)]
        self.trace = []       # decisions taken this run: [value, has_alt]
        self.nvars = 0
        self.queries = 0
        self.solver_time = 0.0
        self.paths = 0
        self.model = None
        self.vars = {}
    # -- variables
    def fresh_int(self, name, lo=None, hi=None):
        v = self.vars.get(name)
        if v is None:
            v = z3.Int(name); self.vars[name] = v
        if lo is not None: self.solver.add(v >= lo)
        if hi is not None: self.solver.add(v <= hi)
        self.model = None
        return SInt(self, v)
    def fresh_real(self, name):
        v = self.vars.get(name)
        if v is None:
            v = z3.Real(name); self.vars[name] = v
        return SReal(self, v)
    def assume(self, cond):
        if isinstance(cond, SBool):
            cond = cond.e
        elif isinstance(cond, bool):
            if not cond: raise Infeasible()
            return
        self.solver.add(cond); self.model = None
        if self._check() != z3.sat:
            raise Infeasible()
    def _check(self, *extra):
        t = time.perf_counter()
        r = self.solver.check(*extra)
        self.solver_time += time.perf_counter() - t
        self.queries += 1
        if r == z3.unknown:
            raise RuntimeError("solver unknown")
        return r
    def branch(self, cond):
        c = z3.simplify(cond)
        if z3.is_true(c): return True
        if z3.is_false(c): return False
        i = len(self.trace)
        if i < len(self.prefix):
            val, alt = self.prefix[i]
            self.trace.append([val, alt])
            self.solver.add(c if val else z3.Not(c)); self.model = None
            return val
        # new decision
        if self.model is None:
            assert self._check() == z3.sat
            self.model = self.solver.model()
        mv = z3.is_true(self.model.eval(c, model_completion=True))
        other = z3.Not(c) if mv else c
        r = self._check(other)
        has_alt = (r == z3.sat)
        self.trace.append([mv, has_alt])
        self.solver.add(c if mv else z3.Not(c))
        # model still valid for chosen side
        return mv
    def explore(self, fn, max_paths=10**9):
        """fn(engine) -> None; raise AssertionError for violations. Returns list of (kind, model, exc)."""
        results = []
        self.prefix = []
        while True:
            self.trace = []
            self.solver.push(); self.model = None
            try:
                fn(self)
                outcome = None
            except Infeasible:
                outcome = "infeasible"
            except Exception as e:
                if self._check() == z3.sat:
                    results.append((e, self.solver.model()))
                outcome = "exc"
            self.paths += 1
            self.solver.pop()
            if results: return results
            # backtrack
            tr = self.trace
            while tr and not tr[-1][1]:
                tr.pop()
            if not tr or self.paths >= max_paths:
                return results
            last = tr.pop()
            self.prefix = [list(t) for t in tr] + [[not last[0], False]]
            # mark flipped decision as having no further alt: handled since prefix entries get has_alt False

def _lift(eng, x):
    if isinstance(x, SNum): return x.e
    if isinstance(x, bool): return z3.IntVal(int(x))
    if isinstance(x, int): return z3.IntVal(x)
    if isinstance(x, float):
        if x != x or x in (float("inf"), float("-inf")): raise NotImplementedError("nonfinite")
        return z3.RealVal(repr(x)) if not x.is_integer() else z3.RealVal(int(x))
    return None

class SBool:
    __slots__ = ("g", "e")
    def __init__(self, g, e): self.g = g; self.e = e
    def __bool__(self): return self.g.branch(self.e)
    def __invert__(self): return SBool(self.g, z3.Not(self.e))

class SNum:
    __slots__ = ("g", "e")
    def __init__(self, g, e): self.g = g; self.e = e
    def _bin(self, o, f, r=False):
        oe = _lift(self.g, o)
        if oe is None: return NotImplemented
        a, b = (oe, self.e) if r else (self.e, oe)
        res = f(a, b)
        return (SReal if res.sort() == z3.RealSort() else SInt)(self.g, res)
    def _cmp(self, o, f):
        oe = _lift(self.g, o)
        if oe is None: return NotImplemented
        return SBool(self.g, f(self.e, oe))
    def __add__(self, o): return self._bin(o, lambda a, b: a + b)
    def __radd__(self, o): return self._bin(o, lambda a, b: a + b, True)
    def __sub__(self, o): return self._bin(o, lambda a, b: a - b)
    def __rsub__(self, o): return self._bin(o, lambda a, b: a - b, True)
    def __mul__(self, o): return self._bin(o, lambda a, b: a * b)
    def __rmul__(self, o): return self._bin(o, lambda a, b: a * b, True)
    def __neg__(self): return type(self)(self.g, -self.e)
    def __truediv__(self, o): return self._bin(o, lambda a, b: z3.ToReal(a) / z3.ToReal(b) if a.sort()==z3.IntSort() and b.sort()==z3.IntSort() else a / b)
    def __rtruediv__(self, o): return self._bin(o, lambda a, b: z3.ToReal(a) / z3.ToReal(b) if a.sort()==z3.IntSort() and b.sort()==z3.IntSort() else a / b, True)
    def __lt__(self, o): return self._cmp(o, lambda a, b: a < b)
    def __le__(self, o): return self._cmp(o, lambda a, b: a <= b)
    def __gt__(self, o): return self._cmp(o, lambda a, b: a > b)
    def __ge__(self, o): return self._cmp(o, lambda a, b: a >= b)
    def __eq__(self, o):
        if o is None: return False
        r = self._cmp(o, lambda a, b: a == b)
        return False if r is NotImplemented else r
    def __ne__(self, o):
        if o is None: return True
        r = self._cmp(o, lambda a, b: a != b)
        return True if r is NotImplemented else r
    def __hash__(self): return 0
    def __abs__(self): return type(self)(self.g, z3.If(self.e >= 0, self.e, -self.e))
    def __mod__(self, o):
        oe = _lift(self.g, o)
        if self.e.sort() == z3.IntSort() and oe.sort() == z3.IntSort():
            return SInt(self.g, self.e % oe)
        a = z3.ToReal(self.e) if self.e.sort()==z3.IntSort() else self.e
        b = z3.ToReal(oe) if oe.sort()==z3.IntSort() else oe
        return SReal(self.g, a - b * z3.ToReal(z3.ToInt(a / b)))
class SInt(SNum):
    __slots__ = ()
    def __index__(self):
        raise NotImplementedError("realize")
class SReal(SNum):
    __slots__ = ()
    def __floor__(self): return SInt(self.g, z3.ToInt(self.e))
    def __ceil__(self): return SInt(self.g, -z3.ToInt(-self.e))

import warnings
from pams.order import Order, LIMIT_ORDER, MARKET_ORDER
def mk(b, k, p, t, i):
    return Order(agent_id=0, market_id=0, is_buy=b, kind=(MARKET_ORDER if k else LIMIT_ORDER), volume=1, price=(None if k else p), placed_at=t, order_id=i)
def total_order(is_buy: bool, k1: bool, k2: bool, k3: bool, p1: int, p2: int, p3: int, t1: int, t2: int, t3: int, i1: int, i2: int, i3: int) -> bool:
    """
    pre: i1 != i2 and i2 != i3 and i1 != i3
    pre: 0 <= t1 and 0 <= t2 and 0 <= t3
    post: _
    """
    warnings.simplefilter("ignore")
    a, b, c = mk(is_buy, k1, p1, t1, i1), mk(is_buy, k2, p2, t2, i2), mk(is_buy, k3, p3, t3, i3)
    if (a < b) == (b < a): return False          # trichotomy for distinct ids
    if (a < b) != (b > a): return False
    if a < b and b < c and not (a < c): return False
    return True
